"""Shared pieces of the schema-space engine E1: entry points (DESIGN.md 3.7), class
configurations, outcome capture."""
from __future__ import annotations

import typing

from vmc import space


def outcome(fn, *a, **kw):
    """('ok', value) | ('exc', exception)"""
    try:
        return ("ok", fn(*a, **kw))
    except RecursionError as e:
        return ("exc", e)
    except Exception as e:
        return ("exc", e)


def exc_chain(e):
    """All exceptions reachable through __cause__/__context__."""
    seen, out = set(), []
    stack = [e]
    while stack:
        x = stack.pop()
        if x is None or id(x) in seen:
            continue
        seen.add(id(x))
        out.append(x)
        stack.extend([x.__cause__, x.__context__])
    return out


def exc_class(e):
    return type(e).__name__


class EntryPoints:
    """encode/decode callables for one type hint h through one entry point.

    kind: 'codec'   BasicEncoder(h) / BasicDecoder(h)
          'mixin'   field x: h of a fresh DataClassDictMixin holder (to_dict()['x'] / from_dict({'x': ..}).x)
          'nested'  field x: h of a plain dataclass inside a mixin holder, directly and inside List[...]
          'oneshot' mashumaro.codecs.basic.encode / decode
    """

    def __init__(self, kind, h, ctx: space.Ctx, default_dialect=None, holder_config=None):
        from mashumaro.codecs.basic import BasicDecoder, BasicEncoder, decode, encode
        self.kind = kind
        if kind == "codec":
            enc = BasicEncoder(h, default_dialect=default_dialect)
            dec = BasicDecoder(h, default_dialect=default_dialect)
            self.encode = enc.encode
            self.decode = dec.decode
        elif kind == "oneshot":
            self.encode = lambda v: encode(v, h)
            self.decode = lambda x: decode(x, h)
        elif kind == "mixin":
            hn = ctx.inject(h, "_h")
            n = ctx.fresh("W")
            cfg = "\n".join(space._config_src(_CfgCtx(holder_config)))
            src = f"@dataclass\nclass {n}(DataClassDictMixin):\n    x: {hn}\n" + (cfg + "\n" if cfg else "")
            W = ctx.execute(n, src)
            self.holder = W
            self.encode = lambda v: W(v).to_dict()["x"]
            self.decode = lambda x: W.from_dict({"x": x}).x
        elif kind == "nested":
            hn = ctx.inject(h, "_h")
            n = ctx.fresh("P")
            m = ctx.fresh("M")
            cfg = "\n".join(space._config_src(_CfgCtx(holder_config)))
            P = ctx.execute(n, f"@dataclass\nclass {n}:\n    x: {hn}\n")
            src = (f"@dataclass\nclass {m}(DataClassDictMixin):\n    p: {n}\n    ps: List[{n}]\n" + (cfg + "\n" if cfg else ""))
            M = ctx.execute(m, src)
            self.holder = M

            def enc(v):
                d = M(P(v), [P(v)]).to_dict()
                a, b = d["p"]["x"], d["ps"][0]["x"]
                return ("pair", a, b)

            def dec(x):
                r = M.from_dict({"p": {"x": x}, "ps": [{"x": x}]})
                return ("pair", r.p.x, r.ps[0].x)
            self.encode = enc
            self.decode = dec
        else:
            raise ValueError(kind)


class _CfgCtx:
    def __init__(self, config):
        self.dc = {"config": config or {}}
