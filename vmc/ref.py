"""The reference model (DESIGN.md 3.6): an interpreter of schema descriptors written from
README.md. It imports nothing from mashumaro.core, never looks at generated code and shares
no helper with the library.

    encode(d, v, ctx, opts)   -> basic form
    decode(d, x, ctx, opts)   -> value | raises Reject | raises Unspecified
    conforms(d, v, ctx)       -> bool (exact classes at every node)
    same(a, b)                -> deep equality including concrete classes
"""
from __future__ import annotations

import base64
import collections
import dataclasses
import datetime as dt
import decimal
import enum
import fractions
import ipaddress
import os
import pathlib
import re
import types
import uuid
import zoneinfo

from vmc import space, tmod


class Reject(Exception):
    """The documented reading says this input cannot be deserialized."""

    def __init__(self, msg="", index_error=False):
        super().__init__(msg)
        self.index_error = index_error


class Unspecified(Exception):
    """The documentation does not determine the outcome for this input."""


DEFAULT_OPTS = dict(native=frozenset(), namedtuple_as_dict=False, by_alias=False, drop_none_fields=False,
                    nt_swallow_index_error=False, none_in_fallback=False)

NATIVE = {
    "orjson": frozenset({"datetime", "date", "time", "uuid"}),
    "msgpack": frozenset({"bytes", "bytearray"}),
    "toml": frozenset({"datetime", "date", "time"}),
}


def opts(**kw):
    o = dict(DEFAULT_OPTS)
    o.update(kw)
    return o


# ---------------------------------------------------------------------------------------
# encoding
# ---------------------------------------------------------------------------------------

def tz_text(v):
    off = v.utcoffset(None)
    if off == dt.timedelta(0):
        return "UTC"
    sign = "-" if off < dt.timedelta(0) else "+"
    if off < dt.timedelta(0):
        off = -off
    total_min, rest = divmod(off.days * 86400 + off.seconds, 60)
    assert rest == 0 and off.microseconds == 0, "sub-minute offsets are outside the domain"
    return f"UTC{sign}{total_min // 60:02d}:{total_min % 60:02d}"


def enc_leaf(name, v, o):
    if name in o["native"]:
        return v
    if name in ("int", "float", "bool", "str", "none", "any", "newtype_int", "literal_str", "literal_int",
                "literal_bool", "literalstring"):
        return v
    if name in ("bytes", "bytearray"):
        return base64.encodebytes(v).decode()
    if name in ("datetime", "date", "time"):
        return v.isoformat()
    if name == "timedelta":
        return v.total_seconds()
    if name == "timezone":
        return tz_text(v)
    if name in ("zoneinfo", "uuid", "decimal", "fraction", "ipv4addr", "ipv6addr", "ipv4net", "ipv6net",
                "ipv4if", "ipv6if"):
        return str(v)
    if name in ("purepath", "path", "pureposixpath", "posixpath", "purewindowspath", "ospathlike"):
        return os.fspath(v)
    if name == "pattern":
        return v.pattern
    if name in ("enum_str", "enum_int", "intenum", "strenum", "flag", "intflag"):
        return v.value
    if name == "literal_bytes":
        return base64.encodebytes(v).decode() if "bytes" not in o["native"] else v
    if name == "literal_enum":
        return v.value
    if name == "literal_none_str":
        return v
    if name == "sertype":
        return [v.x, v.y]
    if name == "asertype":
        return {"d": enc_leaf("date", v.d, o)}
    if name == "abag":
        return list(v.items)
    raise ValueError(name)


def encode(d, v, ctx, o=DEFAULT_OPTS):
    k = d[0]
    E = lambda e, x: encode(e, x, ctx, o)   # noqa: E731
    if k == "leaf":
        return enc_leaf(d[1], v, o)
    if k in ("list", "seq", "mutseq", "tuplevar", "deque", "set", "frozenset", "abcset", "mutset", "pep585list", "barelist",
             "collection"):
        return [E(d[1], x) for x in v]
    if k in ("tuple", "pep585tuple"):
        return [E(e, x) for e, x in zip(d[1:], v)]
    if k == "tupleu":
        pre, mid, post = d[1], d[2], d[3]
        n = len(v)
        out = [E(e, x) for e, x in zip(pre, v[:len(pre)])]
        out += [E(mid, x) for x in v[len(pre):n - len(post)]]
        out += [E(e, x) for e, x in zip(post, v[n - len(post):])] if post else []
        return out
    if k in ("dict", "mapping", "mutmapping", "ordered", "defaultdict", "mproxy", "pep585dict", "baredict"):
        return {E(d[1], kk): E(d[2], x) for kk, x in v.items()}
    if k == "chain":
        return [{E(d[1], kk): E(d[2], x) for kk, x in m.items()} for m in v.maps]
    if k == "counter":
        return {E(d[1], kk): x for kk, x in v.items()}
    if k in ("opt", "optpipe"):
        return None if v is None else E(d[1], v)
    if k in ("union", "pep604", "tvconstr"):
        m = union_member_for_value(d, v, ctx)
        return E(m, v)
    if k in ("annotated", "final", "newtype"):
        return E(d[1], v)
    if k == "tvbound":
        return None if v is None else E(d[1], v)
    if k == "nt":
        names = ctx.info[d]["fields"]
        items = [E(e, x) for (e, _), x in zip(d[1], v)]
        return dict(zip(names, items)) if o["namedtuple_as_dict"] else items
    if k == "ntf":
        names = ctx.info[d]["fields"]
        items = [E(e, x) for e, x in zip(d[1], v)]
        return dict(zip(names, items)) if o["namedtuple_as_dict"] else items
    if k == "td":
        out = {}
        fields = ctx.info[d]["fields"]
        # documented/pinned order: required keys first (declaration order), then optional keys present
        for (e, _), (name, req) in zip(d[1], fields):
            if req:
                out[name] = E(e, v[name])
        for (e, _), (name, req) in zip(d[1], fields):
            if not req and name in v:
                out[name] = E(e, v[name])
        return out
    if k == "dc":
        info = ctx.info[d]
        out = {}
        for (e, kind), name in zip(d[2], info["fields"]):
            x = getattr(v, name)
            key = info["aliases"].get(name, name) if o["by_alias"] else name
            if x is None and o["drop_none_fields"]:
                continue
            if x is None and kind == "none":
                out[key] = None
            else:
                out[key] = E(e, x)
        return out
    if k in ("dcgen", "dcgeninh"):
        out = {"x": E(d[1], v.x), "xs": [E(d[1], x) for x in v.xs]}
        if v.x is None and o["drop_none_fields"]:
            del out["x"]
        if k == "dcgeninh":
            out["own"] = v.own
        return out
    if k == "dcinh":
        out = {"b": E(d[1], v.b), "a": v.a}
        if v.b is None and o["drop_none_fields"]:
            del out["b"]
        if v.c is None:
            if not o["drop_none_fields"]:
                out["c"] = None
        else:
            out["c"] = E(d[1], v.c)
        return out
    if k in ("dcself", "dcselft"):
        out = {"v": E(d[1], v.v)}
        if v.v is None and o["drop_none_fields"]:
            del out["v"]
        if v.nxt is None:
            if not o["drop_none_fields"]:
                out["nxt"] = None
        else:
            out["nxt"] = E(d, v.nxt)
        out["kids"] = [E(d, x) for x in v.kids]
        return out
    if k == "dcfwd":
        out = {"x": {"z": E(d[1], v.x.z), "w": v.x.w}, "y": E(d[1], v.y)}
        if o["drop_none_fields"]:
            if v.x.z is None:
                del out["x"]["z"]
            if v.y is None:
                del out["y"]
        return out
    if k == "dcselfg":
        def node(x):      # the nested nodes are GN[int]
            o2 = {"v": x.v}
            if x.nxt is None:
                if not o["drop_none_fields"]:
                    o2["nxt"] = None
            else:
                o2["nxt"] = node(x.nxt)
            return o2
        out = {"v": E(d[1], v.v)}
        if v.v is None and o["drop_none_fields"]:
            del out["v"]
        if v.nxt is None:
            if not o["drop_none_fields"]:
                out["nxt"] = None
        else:
            out["nxt"] = node(v.nxt)
        return out
    if k == "dcmut":
        out = {"v": E(d[1], v.v)}
        if v.v is None and o["drop_none_fields"]:
            del out["v"]
        if v.b is None:
            if not o["drop_none_fields"]:
                out["b"] = None
        else:
            ob = {}
            if v.b.a is None:
                if not o["drop_none_fields"]:
                    ob["a"] = None
            else:
                ob["a"] = E(d, v.b.a)
            ob["w"] = v.b.w
            out["b"] = ob
        return out
    raise ValueError(d)


def union_member_for_value(d, v, ctx):
    """Serializing picks the member matching the value: first member the value conforms to."""
    for m in d[1:]:
        if conforms(m, v, ctx):
            return m
    raise Reject(f"value {v!r} matches no member")


# ---------------------------------------------------------------------------------------
# decoding
# ---------------------------------------------------------------------------------------
_TZ = re.compile(r"UTC(?:([+-])(\d\d):(\d\d))?")

SCALAR_CTOR = {"int": int, "float": float, "bool": bool, "str": str}


def _ctor(fn, *a, **kw):
    try:
        return fn(*a, **kw)
    except RecursionError:
        raise
    except Exception as e:
        raise Reject(f"{getattr(fn, '__name__', fn)}: {type(e).__name__}: {e}") from None


def dec_leaf(name, x, o):
    if name in o["native"]:
        # a format dialect passes its native types through unchanged
        return x
    if name in ("int", "newtype_int"):
        return _ctor(int, x)
    if name == "float":
        return _ctor(float, x)
    if name == "bool":
        return _ctor(bool, x)
    if name in ("str", "literalstring"):
        return _ctor(str, x)
    if name == "none":
        if x is None:
            return None
        raise Unspecified("non-null input at a None position")
    if name == "any":
        return x
    if name in ("bytes", "bytearray"):
        if not isinstance(x, str):
            raise Reject("base64 text expected")
        raw = _ctor(base64.decodebytes, x.encode())
        return raw if name == "bytes" else bytearray(raw)
    if name == "datetime":
        return _ctor(dt.datetime.fromisoformat, x)
    if name == "date":
        return _ctor(dt.date.fromisoformat, x)
    if name == "time":
        return _ctor(dt.time.fromisoformat, x)
    if name == "timedelta":
        return _ctor(lambda s: dt.timedelta(seconds=s), x)
    if name == "timezone":
        if not isinstance(x, str):
            raise Reject("timezone text expected")
        m = _TZ.fullmatch(x)
        if not m:
            raise Reject("not UTC[+-]hh:mm")
        if m.group(1) is None:
            return dt.timezone.utc
        minutes = int(m.group(2)) * 60 + int(m.group(3))
        if int(m.group(3)) > 59 or int(m.group(2)) > 29:
            raise Reject("not UTC[+-]hh:mm")
        if m.group(1) == "-":
            minutes = -minutes
        return _ctor(lambda: dt.timezone(dt.timedelta(minutes=minutes)))
    if name == "zoneinfo":
        return _ctor(zoneinfo.ZoneInfo, x)
    if name == "uuid":
        return _ctor(uuid.UUID, x)
    if name == "decimal":
        return _ctor(decimal.Decimal, x)
    if name == "fraction":
        return _ctor(fractions.Fraction, x)
    if name in ("ipv4addr", "ipv6addr", "ipv4net", "ipv6net", "ipv4if", "ipv6if"):
        cls = {"ipv4addr": ipaddress.IPv4Address, "ipv6addr": ipaddress.IPv6Address,
               "ipv4net": ipaddress.IPv4Network, "ipv6net": ipaddress.IPv6Network,
               "ipv4if": ipaddress.IPv4Interface, "ipv6if": ipaddress.IPv6Interface}[name]
        return _ctor(cls, x)
    if name in ("purepath", "path", "pureposixpath", "posixpath", "purewindowspath", "ospathlike"):
        cls = {"purepath": pathlib.PurePath, "path": pathlib.Path, "pureposixpath": pathlib.PurePosixPath,
               "posixpath": pathlib.PosixPath, "purewindowspath": pathlib.PureWindowsPath,
               "ospathlike": pathlib.PurePath}[name]
        return _ctor(cls, x)
    if name == "pattern":
        return _ctor(re.compile, x)
    if name in ("enum_str", "enum_int", "intenum", "strenum", "flag", "intflag"):
        cls = space.LEAVES[name][0]
        return _ctor(cls, x)
    if name in ("literal_str", "literal_int", "literal_bool", "literal_none_str"):
        for lit in space.LEAVES[name][1]:
            try:
                if x == lit:
                    return lit
            except Exception:
                pass
        raise Reject("not a listed literal")
    if name == "literal_bytes":
        for lit in space.LEAVES[name][1]:
            try:
                if base64.decodebytes(x.encode()) == lit:
                    return lit
            except Exception:
                pass
        raise Reject("not a listed literal")
    if name == "literal_enum":
        for lit in space.LEAVES[name][1]:
            try:
                if x == lit.value:
                    return lit
            except Exception:
                pass
        raise Reject("not a listed literal")
    if name == "sertype":
        return _ctor(lambda: tmod.Pt(*x))
    if name == "asertype":
        inner = decode(("dict", ("leaf", "str"), ("leaf", "date")), x, None, o)
        return _ctor(lambda: tmod.APt(inner["d"]))
    if name == "abag":
        return tmod.Bag(decode(("list", ("leaf", "int")), x, None, o))
    raise ValueError(name)


def _iter_elems(x, what):
    """Homogeneous sequence/set positions take any JSON array or string; a JSON object is
    iterated as its keys. Numbers, booleans and null are not iterable."""
    if isinstance(x, (list, tuple, str, dict)):
        return list(x)
    raise Reject(f"{what}: not iterable")


def _index(x, i):
    if isinstance(x, (list, tuple, str)):
        try:
            return x[i]
        except IndexError:
            raise Reject("too short", index_error=True) from None
    if isinstance(x, dict):
        raise Unspecified("JSON object at an integer-indexed position")
    raise Reject("not indexable")


def _none_pos(e):
    """A position annotated None: the documentation does not say whether it is read at all."""
    while e[0] in ("annotated", "final", "newtype"):
        e = e[1]
    if e[0] in ("opt", "optpipe", "union", "pep604"):
        return all(_none_pos(m) for m in e[1:])      # Optional[None] is NoneType itself
    return e == ("leaf", "none")


def _items(x, what):
    if isinstance(x, dict):
        return list(x.items())
    raise Reject(f"{what}: JSON object expected")


def decode(d, x, ctx, o=DEFAULT_OPTS):
    k = d[0]
    D = lambda e, y: decode(e, y, ctx, o)   # noqa: E731
    if k == "leaf":
        return dec_leaf(d[1], x, o)
    if k in ("list", "seq", "mutseq", "pep585list", "barelist", "collection"):
        return [D(d[1], y) for y in _iter_elems(x, k)]
    if k == "tuplevar":
        return tuple(D(d[1], y) for y in _iter_elems(x, k))
    if k == "deque":
        return collections.deque(D(d[1], y) for y in _iter_elems(x, k))
    if k in ("set", "abcset", "mutset"):
        return _ctor(set, [D(d[1], y) for y in _iter_elems(x, k)])
    if k == "frozenset":
        return _ctor(frozenset, [D(d[1], y) for y in _iter_elems(x, k)])
    if k in ("tuple", "pep585tuple"):
        if len(d) == 1:
            return ()
        out = []
        for i, e in enumerate(d[1:]):
            try:
                item = _index(x, i)
            except Reject:
                if _none_pos(e):
                    raise Unspecified("missing item at a None position") from None
                raise
            out.append(D(e, item))
        return tuple(out)
    if k == "tupleu":
        pre, mid, post = d[1], d[2], d[3]
        if not isinstance(x, (list, tuple, str)):
            if isinstance(x, dict):
                raise Unspecified("JSON object at an integer-indexed position")
            raise Reject("not indexable")
        n = len(x)
        if n < len(pre) + len(post):
            # the library indexes from both ends; overlapping windows are not documented
            raise Unspecified("fewer items than fixed positions")
        out = [D(e, x[i]) for i, e in enumerate(pre)]
        out += [D(mid, y) for y in x[len(pre):n - len(post)]]
        out += [D(e, x[n - len(post) + i]) for i, e in enumerate(post)]
        return tuple(out)
    if k in ("dict", "mapping", "mutmapping", "pep585dict", "baredict"):
        return _ctor(dict, [(D(d[1], kk), D(d[2], y)) for kk, y in _items(x, k)])
    if k == "ordered":
        return collections.OrderedDict(_ctor(dict, [(D(d[1], kk), D(d[2], y)) for kk, y in _items(x, k)]))
    if k == "defaultdict":
        fac = space._dd_factory(d[2], ctx)
        return collections.defaultdict(fac, _ctor(dict, [(D(d[1], kk), D(d[2], y)) for kk, y in _items(x, k)]))
    if k == "mproxy":
        return types.MappingProxyType(_ctor(dict, [(D(d[1], kk), D(d[2], y)) for kk, y in _items(x, k)]))
    if k == "chain":
        maps = []
        for m in _iter_elems(x, k):
            maps.append(_ctor(dict, [(D(d[1], kk), D(d[2], y)) for kk, y in _items(m, k)]))
        return collections.ChainMap(*maps)
    if k == "counter":
        return collections.Counter(_ctor(dict, [(D(d[1], kk), _ctor(int, y)) for kk, y in _items(x, k)]))
    if k in ("opt", "optpipe"):
        if d[1][0] in ("union", "pep604"):
            return decode_union(d, x, ctx, o)   # typing flattens Optional[Union[...]]
        return None if x is None else D(d[1], x)
    if k == "tvbound":
        return None if x is None else D(d[1], x)
    if k in ("union", "pep604", "tvconstr"):
        return decode_union(d, x, ctx, o)
    if k in ("annotated", "final", "newtype"):
        return D(d[1], x)
    if k in ("nt", "ntf"):
        cls = ctx.info[d]["cls"]
        names = ctx.info[d]["fields"]
        descs = [e for e, _ in d[1]] if k == "nt" else list(d[1])
        has_def = [hd for _, hd in d[1]] if k == "nt" else [False] * len(descs)
        vals = []
        if o["namedtuple_as_dict"]:
            if not isinstance(x, dict):
                raise Unspecified("non-object for a named tuple rendered as dict")
            for e, name, hd in zip(descs, names, has_def):
                if name not in x:
                    raise Reject("missing named tuple key")
                vals.append(D(e, x[name]))
            return cls(*vals)
        if not isinstance(x, (list, tuple, str)):
            if isinstance(x, dict):
                raise Unspecified("JSON object at an integer-indexed position")
            if all(_none_pos(e) for e in descs):
                raise Unspecified("only None positions")
            raise Reject("not indexable")
        for i, (e, hd) in enumerate(zip(descs, has_def)):
            if i >= len(x):
                if _none_pos(e):
                    raise Unspecified("missing item at a None position")
                if any(has_def) and all(has_def[i:]):
                    break   # defaults cover the tail
                raise Reject("too short", index_error=True)
            try:
                vals.append(D(e, x[i]))
            except Reject as r:
                if o["nt_swallow_index_error"] and r.index_error and any(has_def):
                    break
                raise
        if len(vals) < len(descs) and not all(has_def[len(vals):]):
            raise Reject("too short")
        return cls(*vals)
    if k == "td":
        fields = ctx.info[d]["fields"]
        if not isinstance(x, dict):
            if all(_none_pos(e) or not req for (e, _), (_, req) in zip(d[1], fields)):
                raise Unspecified("only None positions")
            raise Reject("JSON object expected")
        out = {}
        for (e, _), (name, req) in zip(d[1], fields):
            if req:
                if name not in x:
                    if _none_pos(e):
                        raise Unspecified("missing key at a None position")
                    raise Reject(f"missing key {name}")
                out[name] = D(e, x[name])
        for (e, _), (name, req) in zip(d[1], fields):
            if not req and name in x:
                out[name] = D(e, x[name])
        return out
    if k == "dc":
        info = ctx.info[d]
        if not isinstance(x, dict):
            if not d[2]:
                raise Unspecified("dataclass without fields")
            raise Reject("JSON object expected")
        kw = {}
        for (e, kind), name in zip(d[2], info["fields"]):
            key = info["aliases"].get(name, name)
            if key in x:
                y = x[key]
            elif o.get("allow_not_by_alias") and name in x:
                y = x[name]
            else:
                if kind == "req":
                    raise Reject(f"missing field {name}")
                continue
            if y is None and kind == "none":
                kw[name] = None
            elif y is None and kind == "dflt" and space.values(e, ctx)[0] is None:
                kw[name] = None
            elif kind == "none":
                kw[name] = D(("opt", e), y)     # the annotation is Optional[e]; typing flattens it into a union e
            else:
                kw[name] = D(e, y)
        return info["cls"](**kw)
    if k in ("dcgen", "dcgeninh", "dcinh", "dcself", "dcselft", "dcfwd", "dcmut", "dcselfg"):
        return _dec_special(d, x, ctx, o)
    raise ValueError(d)


def _need(x, key):
    if key not in x:
        raise Reject(f"missing field {key}")
    return x[key]


def _dec_special(d, x, ctx, o):
    k = d[0]
    D = lambda e, y: decode(e, y, ctx, o)   # noqa: E731
    info = ctx.info[d]
    if not isinstance(x, dict):
        raise Reject("JSON object expected")
    if k == "dcgen":
        return info["cls"](D(d[1], _need(x, "x")), [D(d[1], y) for y in _iter_elems(_need(x, "xs"), k)])
    if k == "dcgeninh":
        kw = {}
        if "own" in x:
            kw["own"] = _ctor(int, x["own"])
        return info["cls"](D(d[1], _need(x, "x")), [D(d[1], y) for y in _iter_elems(_need(x, "xs"), k)], **kw)
    if k == "dcinh":
        kw = dict(b=D(d[1], _need(x, "b")))
        if "a" in x:
            kw["a"] = _ctor(str, x["a"])
        if "c" in x:
            kw["c"] = None if x["c"] is None else D(("opt", d[1]), x["c"])     # the annotation is Optional[e]
        return info["cls"](**kw)
    if k in ("dcself", "dcselft"):
        kw = dict(v=D(d[1], _need(x, "v")))
        if "nxt" in x:
            kw["nxt"] = None if x["nxt"] is None else D(d, x["nxt"])
        if "kids" in x:
            kw["kids"] = [D(d, y) for y in _iter_elems(x["kids"], k)]
        return info["cls"](**kw)
    if k == "dcfwd":
        xx = _need(x, "x")
        if not isinstance(xx, dict):
            raise Reject("JSON object expected")
        kw = dict(z=D(d[1], _need(xx, "z")))
        if "w" in xx:
            kw["w"] = _ctor(int, xx["w"])
        return info["cls"](info["later"](**kw), D(d[1], _need(x, "y")))
    if k == "dcselfg":
        def node(y):
            if not isinstance(y, dict):
                raise Reject("JSON object expected")
            kw2 = dict(v=_ctor(int, _need(y, "v")))
            if y.get("nxt") is not None:
                kw2["nxt"] = node(y["nxt"])
            return info["cls"](**kw2)
        kw = dict(v=D(d[1], _need(x, "v")))
        if x.get("nxt") is not None:
            kw["nxt"] = node(x["nxt"])
        return info["cls"](**kw)
    if k == "dcmut":
        kw = dict(v=D(d[1], _need(x, "v")))
        if "b" in x and x["b"] is not None:
            xb = x["b"]
            if not isinstance(xb, dict):
                raise Reject("JSON object expected")
            kb = {}
            if "a" in xb:
                kb["a"] = None if xb["a"] is None else D(d, xb["a"])
            if "w" in xb:
                kb["w"] = _ctor(int, xb["w"])
            kw["b"] = info["other"](**kb)
        elif "b" in x:
            kw["b"] = None
        return info["cls"](**kw)
    raise ValueError(d)


SCALAR_LEAVES = {"int": int, "float": float, "bool": bool, "str": str, "none": type(None)}


def _flatten_union(d):
    """typing flattens nested unions and Optional[Union[...]]; the reference works on the flat list."""
    return space.flat_members(d)


def scalar_of(m):
    """int/float/bool/str/None members, also when spelled through NewType / Annotated / LiteralString."""
    while m[0] in ("annotated", "newtype"):
        m = m[1]
    if m[0] != "leaf":
        return None
    name = {"newtype_int": "int", "literalstring": "str"}.get(m[1], m[1])
    return name if name in SCALAR_LEAVES else None


def decode_union(d, x, ctx, o):
    """DESIGN.md section 4(1)."""
    none_in_fallback = o["none_in_fallback"]
    members = _flatten_union(d) if d[0] != "tvconstr" else list(d[1:])
    scalars = [m for m in members if scalar_of(m)]
    for m in members:
        if m in scalars:
            if type(x) is SCALAR_LEAVES[scalar_of(m)]:
                return x
            continue
        try:
            return decode(m, x, ctx, o)
        except Reject:
            continue
        except Unspecified:
            raise
    for m in scalars:
        if scalar_of(m) == "none":
            if none_in_fallback:
                return None
            continue
        try:
            return dec_leaf(scalar_of(m), x, o)
        except Reject:
            continue
    raise Reject("no union member accepts the input")


# ---------------------------------------------------------------------------------------
# conformance and equality
# ---------------------------------------------------------------------------------------
CANON = {
    "list": list, "seq": list, "mutseq": list, "pep585list": list, "barelist": list, "collection": list, "tuplevar": tuple,
    "deque": collections.deque,
    "set": set, "abcset": set, "mutset": set, "frozenset": frozenset, "tuple": tuple, "pep585tuple": tuple,
    "tupleu": tuple, "dict": dict, "mapping": dict, "mutmapping": dict, "pep585dict": dict, "baredict": dict,
    "ordered": collections.OrderedDict, "defaultdict": collections.defaultdict, "chain": collections.ChainMap,
    "mproxy": types.MappingProxyType, "counter": collections.Counter, "td": dict,
}

LEAF_CLASS = {
    "int": int, "float": float, "bool": bool, "str": str, "none": type(None), "bytes": bytes,
    "bytearray": bytearray, "datetime": dt.datetime, "date": dt.date, "time": dt.time, "timedelta": dt.timedelta,
    "timezone": dt.timezone, "zoneinfo": zoneinfo.ZoneInfo, "uuid": uuid.UUID, "decimal": decimal.Decimal,
    "fraction": fractions.Fraction, "ipv4addr": ipaddress.IPv4Address, "ipv6addr": ipaddress.IPv6Address,
    "ipv4net": ipaddress.IPv4Network, "ipv6net": ipaddress.IPv6Network, "ipv4if": ipaddress.IPv4Interface,
    "ipv6if": ipaddress.IPv6Interface, "purepath": pathlib.PurePosixPath, "path": pathlib.PosixPath,
    "pureposixpath": pathlib.PurePosixPath, "posixpath": pathlib.PosixPath,
    "purewindowspath": pathlib.PureWindowsPath, "ospathlike": pathlib.PurePosixPath, "pattern": re.Pattern,
    "enum_str": tmod.ES, "enum_int": tmod.EI, "intenum": tmod.IE, "strenum": tmod.SE, "flag": tmod.FL,
    "intflag": tmod.IFL, "newtype_int": int, "sertype": tmod.Pt, "asertype": tmod.APt, "abag": tmod.Bag, "literalstring": str,
}


def conforms(d, v, ctx):
    k = d[0]
    C = lambda e, x: conforms(e, x, ctx)   # noqa: E731
    if k == "leaf":
        n = d[1]
        if n == "any":
            return True
        if n.startswith("literal") and n != "literalstring":
            return any(v is lit or (type(v) is type(lit) and v == lit) for lit in space.LEAVES[n][1])
        return type(v) is LEAF_CLASS[n]
    if k in ("opt", "optpipe", "tvbound"):
        return v is None or C(d[1], v)
    if k in ("union", "pep604", "tvconstr"):
        return any(C(m, v) for m in d[1:])
    if k in ("annotated", "final", "newtype"):
        return C(d[1], v)
    if k in CANON and k != "td":
        if type(v) is not CANON[k]:
            return False
    if k in ("list", "seq", "mutseq", "pep585list", "barelist", "collection", "tuplevar", "deque", "set", "abcset", "mutset",
             "frozenset"):
        return all(C(d[1], x) for x in v)
    if k in ("tuple", "pep585tuple"):
        return len(v) == len(d) - 1 and all(C(e, x) for e, x in zip(d[1:], v))
    if k == "tupleu":
        pre, mid, post = d[1], d[2], d[3]
        n = len(v)
        if n < len(pre) + len(post):
            return False
        return (all(C(e, x) for e, x in zip(pre, v)) and all(C(mid, x) for x in v[len(pre):n - len(post)])
                and all(C(e, x) for e, x in zip(post, v[n - len(post):])))
    if k in ("dict", "mapping", "mutmapping", "pep585dict", "baredict", "ordered", "defaultdict", "mproxy"):
        return all(C(d[1], kk) and C(d[2], x) for kk, x in v.items())
    if k == "chain":
        return all(type(m) is dict and all(C(d[1], kk) and C(d[2], x) for kk, x in m.items()) for m in v.maps)
    if k == "counter":
        return all(C(d[1], kk) and type(x) is int for kk, x in v.items())
    if k in ("nt", "ntf"):
        cls = ctx.info[d]["cls"]
        descs = [e for e, _ in d[1]] if k == "nt" else list(d[1])
        return type(v) is cls and len(v) == len(descs) and all(C(e, x) for e, x in zip(descs, v))
    if k == "td":
        if type(v) is not dict:
            return False
        fields = ctx.info[d]["fields"]
        names = {n for n, _ in fields}
        if not set(v) <= names:
            return False
        for (e, _), (name, req) in zip(d[1], fields):
            if name in v:
                if not C(e, v[name]):
                    return False
            elif req:
                return False
        return True
    if k == "dc":
        info = ctx.info[d]
        if type(v) is not info["cls"]:
            return False
        for (e, kind), name in zip(d[2], info["fields"]):
            x = getattr(v, name)
            if x is None and kind == "none":
                continue
            if not C(e, x):
                return False
        return True
    if k in ("dcgen", "dcgeninh"):
        info = ctx.info[d]
        return (type(v) is info["cls"] and C(d[1], v.x) and type(v.xs) is list and all(C(d[1], x) for x in v.xs)
                and (k == "dcgen" or type(v.own) is int))
    if k == "dcinh":
        return (type(v) is ctx.info[d]["cls"] and C(d[1], v.b) and type(v.a) is str
                and (v.c is None or C(d[1], v.c)))
    if k in ("dcself", "dcselft"):
        return (type(v) is ctx.info[d]["cls"] and C(d[1], v.v) and (v.nxt is None or C(d, v.nxt))
                and type(v.kids) is list and all(C(d, x) for x in v.kids))
    if k == "dcfwd":
        info = ctx.info[d]
        return (type(v) is info["cls"] and type(v.x) is info["later"] and C(d[1], v.x.z) and type(v.x.w) is int
                and C(d[1], v.y))
    if k == "dcselfg":
        cls = ctx.info[d]["cls"]

        def node(y):
            return y is None or (type(y) is cls and type(y.v) is int and node(y.nxt))
        return type(v) is cls and C(d[1], v.v) and node(v.nxt)
    if k == "dcmut":
        info = ctx.info[d]
        return (type(v) is info["cls"] and C(d[1], v.v)
                and (v.b is None or (type(v.b) is info["other"] and type(v.b.w) is int and (v.b.a is None or C(d, v.b.a)))))
    raise ValueError(d)


def same(a, b, dict_order=True):
    """Deep equality that also compares concrete classes, int/bool/float, -0.0 and (unless
    dict_order=False, used where the property only asks for equality) the key order of plain dicts."""
    return _same(a, b, dict_order)


def _same(a, b, dict_order=True):
    same = lambda x, y: _same(x, y, dict_order)   # noqa: E731
    if type(a) is not type(b):
        return False
    if a is b:
        return True
    if isinstance(a, float):
        return repr(a) == repr(b)
    if isinstance(a, collections.ChainMap):
        return same(a.maps, b.maps)
    if isinstance(a, collections.defaultdict):
        if a.default_factory != b.default_factory:
            return False
    if isinstance(a, types.MappingProxyType):
        return same(dict(a), dict(b))
    if isinstance(a, dict):
        ka, kb = list(a.keys()), list(b.keys())
        if len(ka) != len(kb):
            return False
        if not dict_order and type(a) is dict:
            rest = list(kb)
            for x in ka:
                for i, y in enumerate(rest):
                    if same(x, y) and same(a[x], b[y]):
                        del rest[i]
                        break
                else:
                    return False
            return True
        return (all(same(x, y) for x, y in zip(ka, kb))
                and all(same(a[x], b[y]) for x, y in zip(ka, kb)))
    if isinstance(a, (list, tuple, collections.deque)):
        return len(a) == len(b) and all(same(x, y) for x, y in zip(a, b))
    if isinstance(a, (set, frozenset)):
        if len(a) != len(b):
            return False
        rest = list(b)
        for x in a:
            for i, y in enumerate(rest):
                if same(x, y):
                    del rest[i]
                    break
            else:
                return False
        return True
    if dataclasses.is_dataclass(a):
        return all(same(getattr(a, f.name), getattr(b, f.name)) for f in dataclasses.fields(a))
    if isinstance(a, re.Pattern):
        return a.pattern == b.pattern and a.flags == b.flags
    if isinstance(a, dt.datetime):
        return a == b and a.utcoffset() == b.utcoffset()
    if isinstance(a, dt.time):
        return a == b and a.utcoffset() == b.utcoffset()
    if isinstance(a, decimal.Decimal):
        return str(a) == str(b)
    if isinstance(a, enum.Enum):
        return a is b
    if isinstance(a, (bytes, bytearray, str, int)):
        return a == b
    return a == b


def basic_only(x, native_types=()):
    """The tree contains only str int float bool None list dict (+ declared native types)."""
    t = type(x)
    if t in (str, int, float, bool, type(None)) or t in native_types:
        return True
    if t is list:
        return all(basic_only(y, native_types) for y in x)
    if t is dict:
        return all(basic_only(kk, native_types) and basic_only(v, native_types) for kk, v in x.items())
    return False


def has_union3_with_none(d):
    """The schema has a union position with >= 3 (flattened) members one of which is None."""
    if d[0] in ("union", "pep604", "opt", "optpipe"):
        ms = _flatten_union(d)
        if len(ms) >= 3 and ("leaf", "none") in ms:
            return True
    if d[0] == "dc":
        return any(has_union3_with_none(("opt", e) if kind == "none" else e) for e, kind in d[2])
    if d[0] == "dcinh":
        return has_union3_with_none(("opt", d[1]))
    return any(has_union3_with_none(c) for c in space.children(d))


def canon_unordered(x):
    """Hashable rendering with concrete classes in which every mapping's items are sorted (for formats whose
    own dumper does not keep key order, e.g. PyYAML)."""
    t = type(x).__name__
    if isinstance(x, collections.ChainMap):
        return (t, tuple(canon_unordered(m) for m in x.maps))
    if isinstance(x, (dict, types.MappingProxyType)):
        return (t, tuple(sorted(((canon_unordered(k), canon_unordered(v)) for k, v in x.items()), key=repr)))
    if isinstance(x, (list, tuple, collections.deque)):
        return (t, tuple(canon_unordered(i) for i in x))
    if isinstance(x, (set, frozenset)):
        return (t, tuple(sorted((canon_unordered(i) for i in x), key=repr)))
    if dataclasses.is_dataclass(x) and not isinstance(x, type):
        return (t, tuple((f.name, canon_unordered(getattr(x, f.name))) for f in dataclasses.fields(x)))
    if isinstance(x, float):
        return (t, repr(x))
    if isinstance(x, re.Pattern):
        return (t, x.pattern, x.flags)
    if isinstance(x, (dt.datetime, dt.time)):
        return (t, x.isoformat())
    return (t, repr(x))
