"""The five format codecs and each format library's own parser/dumper (used by C04, C13, C15)."""
from __future__ import annotations

import datetime as dt
import json

FORMATS = ("json", "orjson", "yaml", "msgpack", "toml")


def codecs(fmt):
    """-> (Encoder class, Decoder class)"""
    if fmt == "basic":
        from mashumaro.codecs.basic import BasicDecoder, BasicEncoder
        return BasicEncoder, BasicDecoder
    if fmt == "json":
        from mashumaro.codecs.json import JSONDecoder, JSONEncoder
        return JSONEncoder, JSONDecoder
    if fmt == "orjson":
        from mashumaro.codecs.orjson import ORJSONDecoder, ORJSONEncoder
        return ORJSONEncoder, ORJSONDecoder
    if fmt == "yaml":
        from mashumaro.codecs.yaml import YAMLDecoder, YAMLEncoder
        return YAMLEncoder, YAMLDecoder
    if fmt == "msgpack":
        from mashumaro.codecs.msgpack import MessagePackDecoder, MessagePackEncoder
        return MessagePackEncoder, MessagePackDecoder
    if fmt == "toml":
        from mashumaro.codecs.toml import TOMLDecoder, TOMLEncoder
        return TOMLEncoder, TOMLDecoder
    raise ValueError(fmt)


def mixin(fmt):
    """-> (mixin class, to-method name, from-method name)"""
    if fmt == "json":
        from mashumaro.mixins.json import DataClassJSONMixin
        return DataClassJSONMixin, "to_json", "from_json"
    if fmt == "orjson":
        from mashumaro.mixins.orjson import DataClassORJSONMixin
        return DataClassORJSONMixin, "to_jsonb", "from_json"
    if fmt == "yaml":
        from mashumaro.mixins.yaml import DataClassYAMLMixin
        return DataClassYAMLMixin, "to_yaml", "from_yaml"
    if fmt == "msgpack":
        from mashumaro.mixins.msgpack import DataClassMessagePackMixin
        return DataClassMessagePackMixin, "to_msgpack", "from_msgpack"
    if fmt == "toml":
        from mashumaro.mixins.toml import DataClassTOMLMixin
        return DataClassTOMLMixin, "to_toml", "from_toml"
    raise ValueError(fmt)


def parse(fmt, doc):
    """The format library's own parser."""
    if fmt == "json":
        return json.loads(doc)
    if fmt == "orjson":
        import orjson
        return orjson.loads(doc)
    if fmt == "yaml":
        import yaml
        return yaml.load(doc, getattr(yaml, "CSafeLoader", yaml.SafeLoader))
    if fmt == "msgpack":
        import msgpack
        return msgpack.unpackb(doc, raw=False, strict_map_key=False)
    if fmt == "toml":
        import tomllib
        return tomllib.loads(doc if isinstance(doc, str) else doc.decode())
    raise ValueError(fmt)


def dump(fmt, data):
    """The format library's own dumper (for feeding decoders with documents not made by the library)."""
    if fmt == "json":
        return json.dumps(data)
    if fmt == "orjson":
        import orjson
        return orjson.dumps(data)
    if fmt == "yaml":
        import yaml
        return yaml.dump(data, Dumper=getattr(yaml, "CDumper", yaml.Dumper))
    if fmt == "msgpack":
        import msgpack
        return msgpack.packb(data, use_bin_type=True)
    if fmt == "toml":
        import tomli_w
        return tomli_w.dumps(data)
    raise ValueError(fmt)


def drop_none(x):
    if isinstance(x, dict):
        return {k: drop_none(v) for k, v in x.items() if v is not None}
    if isinstance(x, list):
        return [drop_none(v) for v in x]
    return x


def denative(x):
    """Map native date/time objects (TOML, YAML) back to the basic form's ISO text."""
    if isinstance(x, (dt.datetime, dt.date, dt.time)):
        return x.isoformat()
    if isinstance(x, dict):
        return {k: denative(v) for k, v in x.items()}
    if isinstance(x, list):
        return [denative(v) for v in x]
    return x
