"""Engine E2: explicit-state breadth-first search over operation histories executed on fresh
real class families (DESIGN.md 5.2).

A *model* object provides
    initial()                 -> fresh family (real classes, never shared between histories)
    enabled(history)          -> list of ops applicable after `history` (small, finite, ordered simplest-first)
    apply(fam, op)            -> outcome (comparable, repr-able); executes the real library
    canon(fam)                -> hashable canonical state
    expected(history, op)     -> expected outcome (differential: the op applied alone to a fresh eager twin,
                                 or computed from the history itself)
    dispose(fam)              -> release the synthetic module(s)

Every node is rebuilt by replaying its history on a fresh family (live classes cannot be copied).
"""
from __future__ import annotations

import collections
import re

_HEX = re.compile(r"[0-9a-f]{32}")


class BFSResult:
    def __init__(self):
        self.states = 0
        self.transitions = 0
        self.max_depth = 0
        self.multi_pred = 0          # canonical states reached by >= 2 different histories (collisions happened)
        self.outcomes = collections.Counter()
        self.violations = []         # (history, op, got, expected)
        self.frontier_emptied = False
        self.capped = False
        self.samples = []


def rebuild(model, history):
    fam = model.initial()
    for op in history:
        model.apply(fam, op)
    return fam


def bfs(model, depth, max_violations=12, first=None, release_every=400):
    """`first` = index of the only operation explored from the empty history (a thorough unit is split into one
    search per first operation; deeper levels are explored in full, so the union over `first` covers every history
    of the unsplit search - states reached under another first operation are explored again, never skipped)."""
    from vmc import core
    r = BFSResult()
    fam0 = model.initial()
    k0 = model.canon(fam0)
    model.dispose(fam0)
    seen = {k0: 1}
    frontier = collections.deque([()])
    while frontier:
        if len(r.violations) >= max_violations:
            r.capped = True      # the run already fails; do not burn the budget on more counterexamples
            break
        h = frontier.popleft()
        r.max_depth = max(r.max_depth, len(h))
        ops = model.enabled(h)
        if first is not None and not h:
            ops = ops[first:first + 1]
        for op in ops:
            if r.transitions % release_every == release_every - 1:
                core.release_caches()   # the library's lru_caches pin every class ever compiled
            fam = rebuild(model, h)
            try:
                got = model.apply(fam, op)
                r.transitions += 1
                exp = model.expected(h, op)
                r.outcomes[_oclass(got)] += 1
                if got != exp:
                    if len(r.violations) < max_violations:
                        r.violations.append((h, op, got, exp))
                k = model.canon(fam)
            finally:
                model.dispose(fam)
            if k in seen:
                seen[k] += 1
            else:
                seen[k] = 1
                if len(h) + 1 < depth:
                    frontier.append(h + (op,))
            if len(r.samples) < 2 and len(h) >= 1:
                r.samples.append(dict(history=[repr(o) for o in h], op=repr(op), outcome=repr(got)[:120]))
    r.frontier_emptied = not r.capped
    r.states = len(seen)
    r.multi_pred = sum(1 for v in seen.values() if v >= 2)
    return r


def _oclass(out):
    if isinstance(out, tuple) and out and out[0] in ("ok", "exc"):
        return out[0] if out[0] == "ok" else f"exc:{out[1]}"
    return "value"


def class_state(cls, roles=None):
    """Canonical view of the class-level mutable state the library keeps on a class: mashumaro
    methods (stub/compiled), dialect caches (roles of their keys), variant registries, plus the set
    of all other non-field attribute names (so that new state splits states instead of merging them)."""
    roles = roles or {}
    out = []
    fields = set(getattr(cls, "__dataclass_fields__", {}))
    for k, v in sorted(cls.__dict__.items()):
        if k.startswith("__mashumaro") or k.startswith("__dialect") or k.startswith(("to_", "from_")):
            if isinstance(v, dict):
                keys = []
                for x in v:
                    keys.append(roles.get(x) or roles.get(id(x)) or getattr(x, "__name__", repr(x)))
                vals = []
                for x in v.values():
                    if isinstance(x, type):
                        vals.append(roles.get(x) or getattr(x, "__name__", repr(x)))
                out.append((k if "variants_" not in k else "__mashumaro_variants__", tuple(sorted(map(str, keys))),
                            tuple(sorted(map(str, vals)))))
            else:
                f = getattr(v, "__func__", v)
                code = getattr(f, "__code__", None)
                kind = "stub" if code is not None and "CodeBuilder" in code.co_names else "compiled"
                name = _HEX.sub("#", k)
                # generic specialisations carry a hash of the type arguments in the name: keep it (deterministic)
                out.append((name, kind))
        elif k.startswith("__") and k.endswith("__"):
            continue
        elif k in fields:
            continue
        else:
            # generated helper methods carry a random uuid in their name; they are reached only through
            # the entries above, so the uuid is not part of the state
            out.append(("attr", _HEX.sub("#", k)))
    return tuple(sorted(set(out)))
