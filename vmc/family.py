"""Class families for the history (E2) and schedule (E3) engines (DESIGN.md 5.1).

A family is built from source text executed in a fresh synthetic module, exactly as user code
would define it. mode: 'eager' | 'lazy' | 'postponed'. support: ADD_DIALECT_SUPPORT on the mixin
classes. Every build() creates fresh classes (fresh caches, fresh subclass trees).
"""
from __future__ import annotations

import copy
import dataclasses
import datetime
import re

from vmc import space

date = datetime.date

FAMILIES = ("nested", "inherit", "generic", "mutual", "formats", "helpers", "disc", "deep")
LATE = "late"      # parent defined first; the subclass is defined by an operation of the history (C13)


def dialects():
    """Module-level singletons (created once per process) so canonical states can name them."""
    global _D
    try:
        return _D
    except NameError:
        pass
    from mashumaro.dialect import Dialect

    class D1(Dialect):
        serialization_strategy = {
            date: {"serialize": lambda v: v.strftime("%Y/%m/%d"),
                   "deserialize": lambda s: datetime.datetime.strptime(s, "%Y/%m/%d").date()}}

    class D2(Dialect):
        omit_none = True
        serialization_strategy = {int: {"serialize": lambda v: v + 100, "deserialize": lambda v: int(v) - 100}}

    class D3(Dialect):
        serialize_by_alias = True
        omit_default = True
    _D = {"n": None, "D1": D1, "D2": D2, "D3": D3}
    return _D


def _cfg(mode, support, extra=""):
    lines = ["    class Config(BaseConfig):"]
    body = []
    if support:
        body.append("        code_generation_options = [ADD_DIALECT_SUPPORT]")
    if mode == "lazy":
        body.append("        lazy_compilation = True")
    if extra:
        body.append("        " + extra)
    if not body:
        return ""
    return "\n".join(lines + body) + "\n"


INNER = """@dataclass
class Inner:
    a: date
    z: Optional[int] = None
class TD(TypedDict):
    d: date
    n: NotRequired[int]
class NT(NamedTuple):
    d: date
    n: int = 0
class TDB(TypedDict):
    d: date
    b: bytes
"""


def source(family, mode, support, config_dialect=None):
    """-> list of source chunks executed in order, and the roles of the family."""
    cfg = _cfg(mode, support, f"dialect = {config_dialect}" if config_dialect else "")
    post = mode == "postponed"

    def q(name):   # forward reference spelling in postponed mode
        return f"'{name}'" if post else name
    if family == "nested":
        holder = (f"@dataclass\nclass H(DataClassDictMixin):\n    i: {q('Inner')}\n    d: date\n    o: Optional[int] = None\n"
                  f"    al: int = field(default=3, metadata=field_options(alias='AL'))\n{cfg}")
        chunks = [holder, INNER] if post else [INNER, holder]
        roles = ["H"]
    elif family == "helpers":
        # td / nt / u: kinds whose (un)packers are separate generated helper methods stored on the class by name
        holder = (f"@dataclass\nclass HH(DataClassDictMixin):\n    d: date\n"
                  f"    td: Optional[{q('TD')}] = None\n    nt: Optional[{q('NT')}] = None\n    u: typing.Union[date, int] = 5\n{cfg}")
        chunks = [holder, INNER] if post else [INNER, holder]
        roles = ["HH"]
    elif family == "inherit":
        c0 = (f"@dataclass\nclass C0(DataClassDictMixin):\n    d: date\n    o: Optional[int] = None\n"
              f"    al: int = field(default=3, metadata=field_options(alias='AL'))\n{cfg}")
        c = f"@dataclass\nclass C(C0):\n    i: Optional[{q('Inner')}] = None\n"
        c2 = "@dataclass\nclass C2(C):\n    e: int = 5\n"
        chunks = [c0, c, c2, INNER] if post else [INNER, c0, c, c2]
        roles = ["C0", "C", "C2"]
    elif family == "generic":
        g = (f"T = TypeVar('T')\n@dataclass\nclass G(DataClassDictMixin, Generic[T]):\n    x: T\n    xs: List[T]\n{cfg}")
        h = (f"@dataclass\nclass HG(DataClassDictMixin):\n    a: {q('G[int]')}\n    b: {q('G[date]')}\n{cfg}")
        chunks = [h, g] if post else [g, h]
        roles = ["HG", "G"]
    elif family == "mutual":
        ma = f"@dataclass\nclass MA(DataClassDictMixin):\n    b: Optional['MB'] = None\n    n: int = 1\n{cfg}"
        mb = f"@dataclass\nclass MB(DataClassDictMixin):\n    a: Optional[MA] = None\n    d: date = date(2020, 5, 6)\n{cfg}"
        chunks = [ma, mb]
        roles = ["MA", "MB"]
    elif family == "late":
        c0 = (f"@dataclass\nclass C0(DataClassDictMixin):\n    d: date\n    o: Optional[int] = None\n"
              f"    al: int = field(default=3, metadata=field_options(alias='AL'))\n{cfg}")
        c = "@dataclass\nclass C(C0):\n    x: int = 5\n    dd: Optional[date] = None\n"
        chunks = [c0, c]
        roles = ["C0", "C"]
    elif family == "deep":
        # Outer -> List[Box[int]] -> Optional['Note']; Note is defined LATER by an operation of the history: until then calls
        # whose values never reach Note must work whatever the compile timing of Outer
        box = "TB = TypeVar('TB')\n@dataclass\nclass Box(Generic[TB]):\n    v: TB\n    note: Optional['Note'] = None\n"
        plain = "@dataclass\nclass PBox:\n    v: int = 0\n    note: Optional['Note'] = None\n"
        outer = (f"@dataclass\nclass PO(DataClassDictMixin):\n    label: str\n    boxes: List[Box[int]] = field(default_factory=list)\n"
                 f"    pb: Optional[PBox] = None\n{cfg}")
        note = "@dataclass\nclass Note:\n    d: date\n"
        chunks = [box, plain, outer, note]
        roles = ["PO"]
    elif family == "disc":
        # class-level discriminator: the tag registry of Base is filled on first use, per format, and shared by every caller
        dcfg = _cfg(mode, support, "discriminator = Discriminator(field='kind', include_subtypes=True)")
        base = f"@dataclass\nclass Base(DataClassDictMixin):\n    tag: str\n{dcfg}"
        va = "@dataclass\nclass VA(Base):\n    kind: str = 'A'\n    d: Optional[date] = None\n"
        vb = "@dataclass\nclass VB(Base):\n    kind: str = 'B'\n    n: int = 0\n"
        hd = f"BaseB = Base\n@dataclass\nclass HD(DataClassDictMixin):\n    m: List[{q('Base')}]\n    o: Optional[{q('Base')}] = None\n{cfg}"
        chunks = [hd, base, va, vb] if post else [base, va, vb, hd]
        if post:
            chunks = [chunks[0].replace("BaseB = Base\n", ""), base, va, vb, "BaseB = Base\n"]
        roles = ["Base", "BaseB", "HD"]
    elif family == "formats":
        f = (f"@dataclass\nclass F(DataClassORJSONMixin, DataClassMessagePackMixin):\n    d: date\n    b: bytes\n"
             f"    i: Optional[{q('Inner')}] = None\n    td: Optional[{q('TDB')}] = None\n{cfg}")
        chunks = [f, INNER] if post else [INNER, f]
        roles = ["F"]
    else:
        raise ValueError(family)
    return chunks, roles


class Family:
    def __init__(self, family, mode, support, config_dialect=None, defer=0):
        """defer: number of trailing source chunks NOT executed yet (used by schedules/histories that define
        classes later); 0 executes everything."""
        from mashumaro.mixins.msgpack import DataClassMessagePackMixin
        from mashumaro.mixins.orjson import DataClassORJSONMixin
        self.family, self.mode, self.support = family, mode, support
        self.ctx = space.Ctx()
        ns = self.ctx.ns
        ns.update(date=date, DataClassORJSONMixin=DataClassORJSONMixin, DataClassMessagePackMixin=DataClassMessagePackMixin)
        ns.update({k: v for k, v in dialects().items() if v is not None})
        self.chunks, self.roles = source(family, mode, support, config_dialect)
        self.pending = self.chunks[len(self.chunks) - defer:] if defer else []
        for ch in self.chunks[:len(self.chunks) - defer]:
            self.ctx.run(ch)

    def define(self):
        """Execute the next deferred class definition."""
        self.ctx.run(self.pending.pop(0))

    def cls(self, role):
        return self.ctx.ns[role]

    def classes(self):
        out = {r: self.ctx.ns[r] for r in self.roles if r in self.ctx.ns}
        for extra in ("Inner", "VA", "VB"):
            if extra in self.ctx.ns:
                out[extra] = self.ctx.ns[extra]
        return out

    def dispose(self):
        self.ctx.close()

    # standard instances ---------------------------------------------------------------
    def instance(self, role):
        ns = self.ctx.ns
        if role == "H":
            return ns["H"](i=ns["Inner"](date(2021, 3, 4)), d=date(2020, 1, 2), o=None)
        if role == "HH":
            return ns["HH"](d=date(2020, 1, 2), td={"d": date(2022, 1, 1)}, nt=ns["NT"](date(2022, 2, 2)), u=date(2023, 3, 3))
        if role == "C0":
            return ns["C0"](d=date(2020, 1, 2), o=None)
        if role == "C" and self.family == "late":
            return ns["C"](d=date(2020, 1, 2), o=7, x=6, dd=date(2022, 5, 6))
        if role == "C":
            return ns["C"](d=date(2020, 1, 2), o=7, i=ns["Inner"](date(2021, 3, 4), 1))
        if role == "C2":
            return ns["C2"](d=date(2020, 1, 2), o=None, i=ns["Inner"](date(2021, 3, 4)), e=7)
        if role == "HG":
            G = ns["G"]
            return ns["HG"](a=G(1, [2, 3]), b=G(date(2020, 1, 2), [date(2021, 3, 4)]))
        if role == "G":
            return ns["G"](5, [6])
        if role == "MA":
            return ns["MA"](b=ns["MB"](a=ns["MA"](None, 2)), n=3)
        if role == "MB":
            return ns["MB"](a=ns["MA"](ns["MB"]()), d=date(2019, 9, 9))
        if role == "PO":
            return ns["PO"]("s")
        if role == "Base":
            return ns["VA"]("ta", d=date(2020, 1, 2))
        if role == "BaseB":
            return ns["VB"]("tb", n=4)
        if role == "HD":
            return ns["HD"](m=[ns["VB"]("tb", n=4), ns["VA"]("ta", d=date(2020, 1, 2))], o=ns["VA"]("tc"))
        if role == "F":
            return ns["F"](d=date(2020, 1, 2), b=b"\x00\xffab", i=ns["Inner"](date(2021, 3, 4)), td={"d": date(2022, 1, 1), "b": b"\x01\xfe"})
        raise ValueError(role)


_MOD = re.compile(r"vmc_syn_\d+_\d+")


def normalise(x):
    """Module-independent rendering of a result (instances -> class name + field dict)."""
    if dataclasses.is_dataclass(x) and not isinstance(x, type):
        return (type(x).__name__, tuple((f.name, normalise(getattr(x, f.name))) for f in dataclasses.fields(x)))
    if isinstance(x, (list, tuple)):
        return tuple(normalise(i) for i in x)
    if isinstance(x, dict):
        return tuple((k, normalise(v)) for k, v in x.items())
    return repr(x)


def run_op(fam: Family, op, input_value=None):
    """op = (kind, dialect name, role). -> ('ok', normalised) | ('exc', type name, message)"""
    kind, dl, role = op
    D = dialects()[dl]
    kw = {} if D is None else {"dialect": D}
    try:
        if kind == "define":
            fam.define()
            return ("ok", "defined")
        if kind == "to_jsonb+opt":
            import orjson
            out = fam.instance(role).to_jsonb(orjson_options=orjson.OPT_SORT_KEYS, **kw)     # an explicit encoder argument
            return ("ok", normalise(out))
        if kind.startswith("to_"):
            out = getattr(fam.instance(role), kind)(**kw)
            return ("ok", normalise(out))
        out = getattr(fam.cls(role), kind)(copy.deepcopy(input_value), **kw)
        return ("ok", normalise(out))
    except RecursionError:
        return ("exc", "RecursionError", "")
    except Exception as e:   # noqa: BLE001
        return ("exc", type(e).__name__, _MOD.sub("M", str(e))[:120])


def raw_output(fam: Family, op):
    kind, dl, role = op
    D = dialects()[dl]
    kw = {} if D is None else {"dialect": D}
    return getattr(fam.instance(role), kind)(**kw)


PAIR = {"from_dict": "to_dict", "from_json": "to_jsonb", "from_msgpack": "to_msgpack"}


def ops_for(family, support, dialect_names=("n", "D1", "D2")):
    _, roles = source(family, "eager", support)
    kinds = ["to_dict", "from_dict"]
    if family == "formats":
        kinds += ["to_jsonb", "from_json", "to_msgpack", "from_msgpack", "to_jsonb+opt"]
    dls = dialect_names if support else ("n",)
    return [(k, dl, r) for r in roles for k in kinds for dl in dls]
