"""Foreign inputs (DESIGN.md 3.5): Enc(S) plus every single-position substitution by a member of
the JSON-like pool plus structural mutations. Deterministic and exhaustive over the stated sets."""
from __future__ import annotations

import copy

POOL = [None, True, False, 0, 1, -1, 1.5, "", "1", "1.5", "abc", "2020-01-01", "2020-01-01T00:00:00+00:00",
        "UTC+03:00", [], [1], ["a", "b"], [1, 2, 3], {}, {"a": 1}, {"1": 1}]


def positions(tree, path=()):
    """Paths of every node (list items, dict values) of a basic-form tree, root included."""
    yield path
    if isinstance(tree, list):
        for i, x in enumerate(tree):
            yield from positions(x, path + (i,))
    elif isinstance(tree, dict):
        for k, x in tree.items():
            yield from positions(x, path + (k,))


def get_at(tree, path):
    for p in path:
        tree = tree[p]
    return tree


def replace_at(tree, path, new):
    if not path:
        return copy.deepcopy(new)
    t = copy.deepcopy(tree)
    cur = t
    for p in path[:-1]:
        cur = cur[p]
    cur[path[-1]] = copy.deepcopy(new)
    return t


def structural(tree):
    """drop a key, add an unknown key, lengthen / shorten a list - at every container node."""
    for path in positions(tree):
        node = get_at(tree, path)
        if isinstance(node, dict):
            for k in list(node):
                n2 = {kk: vv for kk, vv in node.items() if kk != k}
                yield ("drop", path, k), replace_at(tree, path, n2)
            n2 = dict(node)
            n2["__unknown__"] = 1
            yield ("addkey", path), replace_at(tree, path, n2)
        elif isinstance(node, list):
            if node:
                yield ("shorten", path), replace_at(tree, path, node[:-1])
                yield ("lengthen", path), replace_at(tree, path, node + [copy.deepcopy(node[-1])])
            yield ("append1", path), replace_at(tree, path, node + [1])


def same_json(a, b):
    if type(a) is not type(b):
        return False
    if isinstance(a, list):
        return len(a) == len(b) and all(same_json(x, y) for x, y in zip(a, b))
    if isinstance(a, dict):
        return list(a) == list(b) and all(same_json(a[k], b[k]) for k in a)
    return a == b and repr(a) == repr(b)


def mutations(encodings, max_positions=40):
    """Yields (label, input) for the whole-document pool, and per encoding the identity, every
    single-position pool substitution and the structural mutations."""
    for i, p in enumerate(POOL):
        yield ("whole", i), copy.deepcopy(p)
    for ei, enc in enumerate(encodings):
        yield ("enc", ei), copy.deepcopy(enc)
        pos = [p for p in positions(enc) if p][:max_positions]
        for path in pos:
            old = get_at(enc, path)
            for i, p in enumerate(POOL):
                if same_json(old, p):
                    continue
                yield ("sub", ei, path, i), replace_at(enc, path, p)
        for label, t in structural(enc):
            yield ("struct", ei) + label, t
