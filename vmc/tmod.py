"""Module-level user types used as leaves (importable by dotted name: the `module`
materialisation mode of DESIGN.md 3.3)."""
import enum
from typing import Any, Dict, Generic, List, NewType, Sequence, TypeVar

from mashumaro.types import GenericSerializableType, SerializableType


class ES(enum.Enum):
    A = "a"
    B = "b"
    C = "it's"


class EI(enum.Enum):
    ONE = 1
    TWO = 2


class IE(enum.IntEnum):
    X = 1
    Y = 7


class SE(enum.StrEnum):
    P = "p"
    Q = "q"


class FL(enum.Flag):
    R = 1
    W = 2
    X = 4


class IFL(enum.IntFlag):
    R = 1
    W = 2


NTInt = NewType("NTInt", int)


class Pt(SerializableType):
    """SerializableType without annotations: wire form [x, y]."""

    def __init__(self, x, y):
        self.x, self.y = x, y

    def _serialize(self):
        return [self.x, self.y]

    @classmethod
    def _deserialize(cls, value):
        return cls(*value)

    def __eq__(self, o):
        return type(o) is Pt and (o.x, o.y) == (self.x, self.y)

    def __hash__(self):
        return hash((self.x, self.y))

    def __repr__(self):
        return f"Pt({self.x!r},{self.y!r})"


import datetime


class APt(SerializableType, use_annotations=True):
    """SerializableType with annotations: wire form {"d": iso-date} through Dict[str, date]."""

    def __init__(self, d):
        self.d = d

    def _serialize(self) -> Dict[str, datetime.date]:
        return {"d": self.d}

    @classmethod
    def _deserialize(cls, value: Dict[str, datetime.date]):
        return cls(value["d"])

    def __eq__(self, o):
        return type(o) is APt and o.d == self.d

    def __hash__(self):
        return hash(self.d)

    def __repr__(self):
        return f"APt({self.d!r})"


class Bag(SerializableType, use_annotations=True):
    """Annotated SerializableType whose _serialize hands out its OWN list (wire form: list of int)."""

    def __init__(self, items):
        self.items = items

    def _serialize(self) -> List[int]:
        return self.items

    @classmethod
    def _deserialize(cls, value: List[int]):
        return cls(value)

    def __eq__(self, o):
        return type(o) is Bag and o.items == self.items

    def __hash__(self):
        return hash(tuple(self.items))

    def __repr__(self):
        return f"Bag({self.items!r})"
