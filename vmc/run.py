"""CLI: ./check C07 --tier quick | --tier thorough | --replay replays/C07-0001.json"""
import argparse
import os
import sys

from vmc import core


def main():
    ap = argparse.ArgumentParser()
    ap.add_argument("prop")
    ap.add_argument("--tier", default=os.environ.get("VERIF_TIER", "quick"), choices=["quick", "thorough"])
    ap.add_argument("--replay")
    ap.add_argument("--workers", type=int, default=None)
    ap.add_argument("--only-units", type=int, default=None, help="debugging aid; never used by MANIFEST commands")
    a = ap.parse_args()
    modname = f"vmc.checks.{a.prop.lower()}"
    if a.replay:
        sys.exit(core.run_replay(modname, a.replay))
    try:
        seed = int(os.environ.get("VERIF_SEED", "0"))
    except ValueError:
        seed = 0
    try:
        rc = core.run_check(modname, a.tier, seed, workers=a.workers, only_units=a.only_units)
    except Exception:
        import traceback
        traceback.print_exc()
        rc = 2
    sys.exit(rc)


if __name__ == "__main__":
    main()
