"""Schema descriptors, grammar enumeration, materialisation into real type hints and
fresh classes, and the finite value domain of every descriptor (DESIGN.md 3.1-3.4).

A descriptor is a nested tuple of strings/ints only: hashable, orderable, JSON-able.

    ("leaf", name)
    ("list"|"seq"|"mutseq"|"tuplevar"|"deque"|"set"|"frozenset"|"abcset"|"mutset"|"collection", e)
    ("tuple", e1, ..., en)           fixed arity, n >= 0   (n == 0: Tuple[()])
    ("tupleu", (pre...), e, (post...))   Tuple[*pre, *Tuple[e, ...], *post]  (PEP 646)
    ("dict"|"mapping"|"mutmapping"|"ordered"|"defaultdict"|"chain"|"mproxy", k, v);  ("counter", k)
    ("opt", e)   ("union", e1, e2, ...)   ("pep604", e1, e2, ...)   ("optpipe", e)
    ("annotated", e)  ("newtype", e)  ("tvbound", e)  ("tvconstr", e1, e2)  ("final", e) [dc field only]
    ("nt", ((e, has_default), ...))          typing.NamedTuple, class syntax
    ("ntf", (e, ...))                        collections.namedtuple + annotations (functional)
    ("td", ((e, kind), ...))                 TypedDict; kind in req / notreq / total_false
    ("td" | "nt", (...), "generic")          the same, as a parametrisation of a generic class whose first member is a TypeVar
    ("dc", variant, ((e, kind), ...))        dataclass; kind in req / dflt / none
    ("dcgen", e)      Generic dataclass G[T]{x: T, xs: List[T]} used as G[e]
    ("dcgeninh", e)   class Child(G[e]) with an own field
    ("dcinh", e)      Base{a: int = 1, b: e} <- Child{a: str = "s" (overridden), c: e}
    ("dcself", e)     Node{v: e, nxt: Optional["Node"] = None, kids: List["Node"] = []}
    ("dcselft", e)    Node{v: e, nxt: Optional[typing.Self] = None, kids: List[typing.Self] = []}
    ("dcfwd", e)      Holder{x: "Later", y: e}; class Later defined after Holder (postponed evaluation)
    ("dcselfg", e)    GN{v: T, nxt: Optional["GN[int]"] = None} specialised as GN[e]: a generic class referring to a specialisation of itself
    ("dcmut", e)      plain PA{v: e, b: Optional["PB"] = None} and plain PB{a: Optional[PA] = None, w: int = 0} referring to each other
"""
from __future__ import annotations

import collections
import collections.abc
import dataclasses
import datetime as dt
import decimal
import fractions
import ipaddress
import itertools
import os
import pathlib
import re
import sys
import types
import typing
import uuid
import zoneinfo

import typing_extensions

from vmc import tmod

UTC = dt.timezone.utc


def tz(**kw):
    return dt.timezone(dt.timedelta(**kw))


# ---------------------------------------------------------------------------------------
# leaves: name -> (type hint, values, wire kind)
# wire kind: the JSON kind(s) of the basic form, used to keep unions/keys unambiguous.
# ---------------------------------------------------------------------------------------
L = typing.Literal

LEAVES = {
    "int": (int, [0, 1, -1, 2 ** 63, -2 ** 63 - 1], "int"),
    "float": (float, [0.0, -0.0, 1.5, -2.25, 1e-7, 1e300, 1e16, 5e-324], "float"),
    "bool": (bool, [True, False], "bool"),
    "str": (str, ["", "a", "\u00e9\u4e2d", "q'\"\\\n", "1", "2020-01-01", "UTC", "l1\r\nl2\t"], "str"),
    "none": (type(None), [None], "null"),
    "any": (typing.Any, [1, "a", None, [1], {"k": [1]}], "any"),
    "bytes": (bytes, [b"", b"a", bytes(range(58)), bytes(range(256))], "str"),
    "bytearray": (bytearray, [bytearray(b""), bytearray(b"ab\x00")], "str"),
    "datetime": (dt.datetime, [dt.datetime(2000, 1, 1), dt.datetime(2021, 12, 31, 23, 59, 59, 999999),
                               dt.datetime(2000, 1, 1, 1, 2, 3, 4, tzinfo=tz(hours=-3)),
                               dt.datetime(1970, 1, 1, tzinfo=UTC),
                               dt.datetime(2020, 2, 29, 12, tzinfo=tz(hours=5, minutes=30))], "str"),
    "date": (dt.date, [dt.date(2020, 2, 29), dt.date(1, 1, 1), dt.date(9999, 12, 31)], "str"),
    "time": (dt.time, [dt.time(0, 0), dt.time(23, 59, 59, 999999), dt.time(1, 2, tzinfo=UTC),
                       dt.time(1, 2, 3, tzinfo=tz(hours=-7))], "str"),
    "timedelta": (dt.timedelta, [dt.timedelta(0), dt.timedelta(seconds=1), dt.timedelta(seconds=-1.5),
                                 dt.timedelta(days=1, microseconds=1), dt.timedelta(microseconds=-1),
                                 dt.timedelta(days=10 ** 6)], "float"),
    "timezone": (dt.timezone, [UTC, tz(hours=3), tz(hours=-3), tz(minutes=-30), tz(minutes=1),
                               tz(hours=14), tz(hours=-23, minutes=-59), tz(hours=-3, minutes=-30),
                               tz(minutes=-1), tz(hours=9, minutes=45)], "str"),
    "zoneinfo": (zoneinfo.ZoneInfo, [zoneinfo.ZoneInfo("UTC"), zoneinfo.ZoneInfo("Europe/Berlin")], "str"),
    "uuid": (uuid.UUID, [uuid.UUID(int=0), uuid.UUID("12345678-1234-5678-1234-567812345678")], "str"),
    "decimal": (decimal.Decimal, [decimal.Decimal("0"), decimal.Decimal("-1.50"), decimal.Decimal("1E+3"),
                                  decimal.Decimal("-0"), decimal.Decimal("1E-7"), decimal.Decimal("Infinity")], "str"),
    "fraction": (fractions.Fraction, [fractions.Fraction(1, 3), fractions.Fraction(-7, 2), fractions.Fraction(4), fractions.Fraction(0)], "str"),
    "ipv4addr": (ipaddress.IPv4Address, [ipaddress.IPv4Address("1.2.3.4"), ipaddress.IPv4Address("0.0.0.0")], "str"),
    "ipv6addr": (ipaddress.IPv6Address, [ipaddress.IPv6Address("::1"), ipaddress.IPv6Address("2001:db8::ff"),
                                       ipaddress.IPv6Address("fe80::1%eth0"), ipaddress.IPv6Address("::ffff:1.2.3.4")], "str"),
    "ipv4net": (ipaddress.IPv4Network, [ipaddress.IPv4Network("10.0.0.0/8"), ipaddress.IPv4Network("1.2.3.4/32")], "str"),
    "ipv6net": (ipaddress.IPv6Network, [ipaddress.IPv6Network("::/64"), ipaddress.IPv6Network("2001:db8::/32")], "str"),
    "ipv4if": (ipaddress.IPv4Interface, [ipaddress.IPv4Interface("10.1.2.3/8"), ipaddress.IPv4Interface("1.2.3.4/32")], "str"),
    "ipv6if": (ipaddress.IPv6Interface, [ipaddress.IPv6Interface("2001:db8::1/64"), ipaddress.IPv6Interface("fe80::1%eth0/64"),
                                         ipaddress.IPv6Interface("::1/128")], "str"),
    "purepath": (pathlib.PurePath, [pathlib.PurePath("a b"), pathlib.PurePath("/x/y.z"), pathlib.PurePath(".")], "str"),
    "path": (pathlib.Path, [pathlib.Path("/a/b"), pathlib.Path(".")], "str"),
    "pureposixpath": (pathlib.PurePosixPath, [pathlib.PurePosixPath("/p/q"), pathlib.PurePosixPath("r")], "str"),
    "posixpath": (pathlib.PosixPath, [pathlib.PosixPath("/p/q")], "str"),
    "purewindowspath": (pathlib.PureWindowsPath, [pathlib.PureWindowsPath("C:\\x\\y"), pathlib.PureWindowsPath("z")], "str"),
    "ospathlike": (os.PathLike, [pathlib.PurePosixPath("/o/p")], "str"),
    "pattern": (re.Pattern, [re.compile("a+b"), re.compile(""), re.compile("[\\'\"]\\n")], "str"),
    "enum_str": (tmod.ES, [tmod.ES.A, tmod.ES.B, tmod.ES.C], "str"),
    "enum_int": (tmod.EI, [tmod.EI.ONE, tmod.EI.TWO], "int"),
    "intenum": (tmod.IE, [tmod.IE.X, tmod.IE.Y], "int"),
    "strenum": (tmod.SE, [tmod.SE.P, tmod.SE.Q], "str"),
    "flag": (tmod.FL, [tmod.FL.R, tmod.FL.R | tmod.FL.X, tmod.FL(0)], "int"),
    "intflag": (tmod.IFL, [tmod.IFL.R, tmod.IFL.R | tmod.IFL.W, tmod.IFL(0)], "int"),
    "literal_str": (L["a", "b'\\"], ["a", "b'\\"], "str"),
    "literal_int": (L[1, 2], [1, 2], "int"),
    "literal_bytes": (L[b"x", b"\x00y"], [b"x", b"\x00y"], "str"),
    "literal_enum": (L[tmod.ES.A, tmod.EI.TWO], [tmod.ES.A, tmod.EI.TWO], "any"),
    "literal_none_str": (L[None, "n"], [None, "n"], "any"),
    "literal_bool": (L[True], [True], "bool"),
    "newtype_int": (tmod.NTInt, [tmod.NTInt(5), tmod.NTInt(-6)], "int"),
    "sertype": (tmod.Pt, [tmod.Pt(1, 2), tmod.Pt("a", None)], "list"),
    "asertype": (tmod.APt, [tmod.APt(dt.date(2020, 1, 2))], "dict"),
    "abag": (tmod.Bag, [tmod.Bag([1, 2]), tmod.Bag([])], "list"),
    "literalstring": (typing_extensions.LiteralString, ["", "ls"], "str"),
    "strsub": (tmod.SE, [tmod.SE.P], "str"),  # placeholder, replaced below
}
del LEAVES["strsub"]

ALL_LEAVES = tuple(LEAVES)
# one leaf per packer family (DESIGN.md 3.2) used in the non-varying positions
REP_LEAVES = ("int", "str", "date", "timedelta", "bytes", "enum_str")
KEY_LEAVES = ("str", "int", "date", "enum_str", "uuid", "intenum", "bool", "float", "timezone", "strenum", "decimal")
SET_LEAVES = ("str", "int", "date", "enum_str", "uuid", "intenum", "bool", "timezone", "bytes", "decimal",
              "fraction", "ipv4addr", "time", "datetime", "timedelta", "flag", "purepath", "sertype", "literal_str")
SEQ1 = ("list", "seq", "mutseq", "tuplevar", "deque")
SET1 = ("set", "frozenset", "abcset", "mutset")
MAP2 = ("dict", "mapping", "mutmapping", "ordered", "defaultdict", "chain", "mproxy")


def leaf(n):
    return ("leaf", n)


# ---------------------------------------------------------------------------------------
# materialisation context
# ---------------------------------------------------------------------------------------
_ctx_counter = itertools.count()

BASE_NS = {}


def _base_ns():
    if BASE_NS:
        return BASE_NS
    import mashumaro
    from mashumaro import DataClassDictMixin, field_options, pass_through
    from mashumaro.config import (ADD_DIALECT_SUPPORT, ADD_SERIALIZATION_CONTEXT, BaseConfig,
                                  TO_DICT_ADD_BY_ALIAS_FLAG, TO_DICT_ADD_OMIT_NONE_FLAG)
    from mashumaro.types import Alias, Discriminator
    BASE_NS.update(
        dataclass=dataclasses.dataclass, field=dataclasses.field, typing=typing,
        typing_extensions=typing_extensions, collections=collections,
        DataClassDictMixin=DataClassDictMixin, BaseConfig=BaseConfig, field_options=field_options,
        Alias=Alias, Discriminator=Discriminator, pass_through=pass_through,
        ADD_DIALECT_SUPPORT=ADD_DIALECT_SUPPORT, ADD_SERIALIZATION_CONTEXT=ADD_SERIALIZATION_CONTEXT,
        TO_DICT_ADD_BY_ALIAS_FLAG=TO_DICT_ADD_BY_ALIAS_FLAG, TO_DICT_ADD_OMIT_NONE_FLAG=TO_DICT_ADD_OMIT_NONE_FLAG,
        NamedTuple=typing.NamedTuple, TypedDict=typing_extensions.TypedDict, Generic=typing.Generic,
        TypeVar=typing.TypeVar, Optional=typing.Optional, List=typing.List, Annotated=typing.Annotated,
        NotRequired=typing_extensions.NotRequired, Required=typing_extensions.Required,
        ReadOnly=typing_extensions.ReadOnly, Final=typing.Final, Any=typing.Any, Dict=typing.Dict,
    )
    return BASE_NS


class Ctx:
    """One materialisation: a fresh synthetic module holding freshly created classes.

    mode: 'module' (classes are module attributes, dotted-name path), 'local' (classes created
    inside a function: <locals> path).
    dc: options applied to every generated dataclass:
        config : dict  name -> python source of the Config attribute value
        alias  : None | 'meta' | 'annotated' | 'config'   (alias of field f<i> is 'a<i>')
        variant_override : replace the variant of ("dc", variant, ...) descriptors
    """

    def __init__(self, mode="module", dc=None):
        # typing caches parametrised generics by the *set* of a union's members: Tuple[Union[str, int], ...] created
        # earlier in this process would be handed back for Tuple[Union[int, str], ...]. Every materialisation starts
        # from empty typing caches so that the written member order is the one the library sees.
        for cleanup in getattr(typing, "_cleanups", ()):
            cleanup()
        self.mode = mode
        self.modname = f"vmc_syn_{os.getpid()}_{next(_ctx_counter)}"
        self.mod = types.ModuleType(self.modname)
        sys.modules[self.modname] = self.mod
        self.ns = self.mod.__dict__
        self.ns.update(_base_ns())
        self.hints = {}
        self.info = {}      # descriptor -> dict(cls=..., fields=[...], ...)
        self.k = 0
        self.dc = dc or {}

    def close(self):
        sys.modules.pop(self.modname, None)

    def __enter__(self):
        return self

    def __exit__(self, *a):
        self.close()

    def fresh(self, prefix):
        self.k += 1
        return f"{prefix}{self.k}"

    def inject(self, obj, prefix="_o"):
        name = self.fresh(prefix)
        self.ns[name] = obj
        return name

    def execute(self, cname, src):
        if self.mode == "local":
            body = "\n".join("    " + ln for ln in src.splitlines())
            src = f"def _mk_{cname}():\n{body}\n    return {cname}\n{cname} = _mk_{cname}()\n"
        self.run(src)
        return self.ns[cname]

    def run(self, src):
        # dont_inherit: this module uses `from __future__ import annotations`, generated code must not
        exec(compile(src, f"<{self.modname}>", "exec", dont_inherit=True), self.ns)


def flat_members(d):
    """Members of a union-ish descriptor after typing's flattening, in written order, None last for Optional."""
    out = []
    for m in (d[1:] if d[0] in ("union", "pep604") else (d[1], ("leaf", "none"))):
        if m[0] in ("union", "pep604", "opt", "optpipe"):
            out.extend(flat_members(m))
        else:
            out.append(m)
    res = []
    for m in out:
        if m not in res:
            res.append(m)
    return res


def is_mutable_default(v):
    return isinstance(v, (list, dict, set, bytearray, collections.deque, collections.ChainMap)) or (
        dataclasses.is_dataclass(v) and not isinstance(v, type)) or type(v).__hash__ is None


def hint(d, ctx: Ctx):
    """Real type hint for descriptor d (classes are created once per ctx and descriptor)."""
    if d in ctx.hints:
        return ctx.hints[d]
    h = _hint(d, ctx)
    ctx.hints[d] = h
    return h


def _hint(d, ctx):
    T = typing
    k = d[0]
    if k == "leaf":
        return LEAVES[d[1]][0]
    if k == "list":
        return T.List[hint(d[1], ctx)]
    if k == "seq":
        return T.Sequence[hint(d[1], ctx)]
    if k == "mutseq":
        return T.MutableSequence[hint(d[1], ctx)]
    if k == "collection":
        return T.Collection[hint(d[1], ctx)]
    if k == "tuplevar":
        return T.Tuple[hint(d[1], ctx), ...]
    if k == "deque":
        return T.Deque[hint(d[1], ctx)]
    if k == "set":
        return T.Set[hint(d[1], ctx)]
    if k == "frozenset":
        return T.FrozenSet[hint(d[1], ctx)]
    if k == "abcset":
        return T.AbstractSet[hint(d[1], ctx)]
    if k == "mutset":
        return T.MutableSet[hint(d[1], ctx)]
    if k == "pep585list":
        return list[hint(d[1], ctx)]
    if k == "pep585dict":
        return dict[hint(d[1], ctx), hint(d[2], ctx)]
    if k == "barelist":
        return list            # the builtin without parameters: elements are passed through like Any
    if k == "baredict":
        return dict
    if k == "pep585tuple":
        return tuple[tuple(hint(x, ctx) for x in d[1:])]
    if k == "tuple":
        if len(d) == 1:
            return T.Tuple[()]
        return T.Tuple[tuple(hint(x, ctx) for x in d[1:])]
    if k == "tupleu":
        pre = tuple(hint(x, ctx) for x in d[1])
        post = tuple(hint(x, ctx) for x in d[3])
        mid = typing_extensions.Unpack[T.Tuple[hint(d[2], ctx), ...]]
        return T.Tuple[pre + (mid,) + post]
    if k == "dict":
        return T.Dict[hint(d[1], ctx), hint(d[2], ctx)]
    if k == "mapping":
        return T.Mapping[hint(d[1], ctx), hint(d[2], ctx)]
    if k == "mutmapping":
        return T.MutableMapping[hint(d[1], ctx), hint(d[2], ctx)]
    if k == "ordered":
        return T.OrderedDict[hint(d[1], ctx), hint(d[2], ctx)]
    if k == "defaultdict":
        return T.DefaultDict[hint(d[1], ctx), hint(d[2], ctx)]
    if k == "chain":
        return T.ChainMap[hint(d[1], ctx), hint(d[2], ctx)]
    if k == "mproxy":
        return types.MappingProxyType[hint(d[1], ctx), hint(d[2], ctx)]
    if k == "counter":
        return T.Counter[hint(d[1], ctx)]
    if k in ("opt", "union", "optpipe", "pep604") and any(c[0] in ("opt", "union", "optpipe", "pep604") for c in d[1:]):
        # typing flattens nested unions, and its cache returns whichever argument order of an equal inner
        # union was created first in this process; build the flat form so that the order is the written one
        ms = [hint(m, ctx) for m in flat_members(d)]
        if k in ("opt", "union"):
            return T.Union[tuple(ms)]
        return _pipe(ms)
    if k == "opt":
        return T.Optional[hint(d[1], ctx)]
    if k == "optpipe":
        return _pipe([hint(d[1], ctx), type(None)])
    if k == "union":
        return T.Union[tuple(hint(x, ctx) for x in d[1:])]
    if k == "pep604":
        return _pipe([hint(x, ctx) for x in d[1:]])
    if k == "annotated":
        return T.Annotated[hint(d[1], ctx), "meta"]
    if k == "final":
        return T.Final[hint(d[1], ctx)]
    if k == "newtype":
        # module-level statement in the synthetic module, as user code would write it
        n, hn = ctx.fresh("NT"), ctx.inject(hint(d[1], ctx), "_h")
        ctx.run(f"{n} = typing.NewType('{n}', {hn})")
        return ctx.ns[n]
    if k == "tvbound":
        n, hn = ctx.fresh("TB"), ctx.inject(hint(d[1], ctx), "_h")
        ctx.run(f"{n} = TypeVar('{n}', bound={hn})")
        return ctx.ns[n]
    if k == "tvconstr":
        n, h1, h2 = ctx.fresh("TC"), ctx.inject(hint(d[1], ctx), "_h"), ctx.inject(hint(d[2], ctx), "_h")
        ctx.run(f"{n} = TypeVar('{n}', {h1}, {h2})")
        return ctx.ns[n]
    if k == "nt":
        return _mk_nt(d, ctx)
    if k == "ntf":
        return _mk_ntf(d, ctx)
    if k == "td":
        return _mk_td(d, ctx)
    if k == "dc":
        return _mk_dc(d, ctx)
    if k in ("dcgen", "dcgeninh", "dcinh", "dcself", "dcselft", "dcfwd", "dcmut", "dcselfg"):
        return _mk_special(d, ctx)
    raise ValueError(f"unknown descriptor {d!r}")


def _pipe(ms):
    """a | b | c. With classes only this is a types.UnionType in written order. As soon as a typing
    generic takes part, `|` builds nested typing.Union objects whose argument order depends on typing's
    cache history, so the (equivalent) flat typing.Union is built directly."""
    if all(isinstance(m, type) for m in ms):
        h = ms[0]
        for x in ms[1:]:
            h = h | x
        return h
    return typing.Union[tuple(ms)]


def _default_src(ctx, d, v):
    """Source text for a dataclass/namedtuple default producing v (fresh copy when mutable)."""
    import copy
    if is_mutable_default(v):
        name = ctx.inject(lambda v=v: copy.deepcopy(v), "_fac")
        return f"field(default_factory={name}{{meta}})"
    name = ctx.inject(v, "_dv")
    return f"field(default={name}{{meta}})"


def _generic_cached(d, ctx):
    """("nt" | "td", fields, "generic"): ONE generic class per shape (first member typed by a TypeVar), shared by every descriptor of
    that shape in the materialisation, so that two parametrisations of the same generic class can meet in one schema."""
    if len(d) < 3 or d[2] != "generic":
        return None, None
    reg = ctx.__dict__.setdefault("generic_classes", {})
    key = (d[0], tuple(kind for _, kind in d[1]), tuple(e for e, _ in d[1][1:]))
    return reg, key


def _mk_nt(d, ctx):
    reg, key = _generic_cached(d, ctx)
    if reg is not None and key in reg:
        cls, fields = reg[key]
        ctx.info[d] = dict(cls=cls, fields=fields)
        return cls[hint(d[1][0][0], ctx)]
    cname = ctx.fresh("NTup")
    lines = [f"class {cname}(NamedTuple):"]
    if reg is not None:
        tv = ctx.fresh("TN")
        ctx.run(f"{tv} = TypeVar('{tv}')")
        lines = [f"class {cname}(NamedTuple, Generic[{tv}]):"]
    fields = []
    for i, (e, has_default) in enumerate(d[1]):
        hn = ctx.inject(hint(e, ctx), "_h")
        if reg is not None and i == 0:
            hn = tv
        if has_default:
            dv = ctx.inject(values(e, ctx)[0], "_dv")
            lines.append(f"    n{i}: {hn} = {dv}")
        else:
            lines.append(f"    n{i}: {hn}")
        fields.append(f"n{i}")
    cls = ctx.execute(cname, "\n".join(lines))
    ctx.info[d] = dict(cls=cls, fields=fields)
    if reg is not None:
        reg[key] = (cls, fields)
        return cls[hint(d[1][0][0], ctx)]
    return cls


def _mk_ntf(d, ctx):
    cname = ctx.fresh("NTf")
    names = [f"n{i}" for i in range(len(d[1]))]
    cls = collections.namedtuple(cname, names)
    cls.__annotations__ = {n: hint(e, ctx) for n, e in zip(names, d[1])}
    cls.__module__ = ctx.modname
    if ctx.mode != "functional":
        setattr(ctx.mod, cname, cls)
    ctx.info[d] = dict(cls=cls, fields=names)
    return cls


def _mk_td(d, ctx):
    reg, key = _generic_cached(d, ctx)
    if reg is not None and key in reg:
        cls, fields = reg[key]
        ctx.info[d] = dict(cls=cls, fields=fields)
        return cls[hint(d[1][0][0], ctx)]
    cname = ctx.fresh("TD")
    total_false = any(kind == "total_false" for _, kind in d[1])
    lines = [f"class {cname}(TypedDict{', total=False' if total_false else ''}):"]
    if reg is not None:
        tv = ctx.fresh("TT")
        ctx.run(f"{tv} = TypeVar('{tv}')")
        lines = [f"class {cname}(TypedDict, Generic[{tv}]{', total=False' if total_false else ''}):"]
    fields = []
    for i, (e, kind) in enumerate(d[1]):
        hn = ctx.inject(hint(e, ctx), "_h")
        if reg is not None and i == 0:
            hn = tv
        if kind == "notreq":
            lines.append(f"    k{i}: NotRequired[{hn}]")
        elif kind == "req" and total_false:
            lines.append(f"    k{i}: Required[{hn}]")
        elif kind == "readonly":
            lines.append(f"    k{i}: ReadOnly[{hn}]")
        else:
            lines.append(f"    k{i}: {hn}")
        fields.append((f"k{i}", kind in ("req", "readonly")))
    cls = ctx.execute(cname, "\n".join(lines))
    ctx.info[d] = dict(cls=cls, fields=fields)
    if reg is not None:
        reg[key] = (cls, fields)
        return cls[hint(d[1][0][0], ctx)]
    return cls


DC_VARIANTS = ("plain", "mixin", "slots", "frozen", "lazy", "kwonly", "eqfalse")


def _config_src(ctx, extra=None):
    cfg = dict(ctx.dc.get("config", {}))
    cfg.update(extra or {})
    if not cfg:
        return []
    lines = ["    class Config(BaseConfig):"]
    for k2, v in cfg.items():
        lines.append(f"        {k2} = {v}")
    return lines


def _mk_dc(d, ctx):
    _, variant, fields = d
    variant = ctx.dc.get("variant_override", variant)
    cname = ctx.fresh("DC")
    alias_mode = ctx.dc.get("alias")
    deco = "@dataclass"
    base = ctx.dc.get("base", "DataClassDictMixin")      # a format mixin name (bound in ctx.ns) for format-mixin classes
    extra_cfg = {}
    if variant == "plain":
        base = ""
    elif variant == "slots":
        deco = "@dataclass(slots=True)"
    elif variant == "frozen":
        deco = "@dataclass(frozen=True)"
    elif variant == "kwonly":
        deco = "@dataclass(kw_only=True)"
    elif variant == "eqfalse":
        deco = "@dataclass(eq=False)"
    elif variant == "lazy":
        extra_cfg["lazy_compilation"] = "True"
    lines = [deco, f"class {cname}({base}):" if base else f"class {cname}:"]
    names, kinds = [], []
    req_done = False
    aliases = {}
    for i, (e, kind) in enumerate(fields):
        fname = f"f{i}"
        h = hint(e, ctx)
        meta = ""
        if alias_mode == "meta":
            meta = f", metadata=field_options(alias='a{i}')"
            aliases[fname] = f"a{i}"
        elif alias_mode == "annotated":
            aliases[fname] = f"a{i}"
        elif alias_mode == "config":
            aliases[fname] = f"a{i}"
        elif alias_mode == "both":
            # field metadata wins over Config.aliases (which names another key for the same field)
            meta = f", metadata=field_options(alias='a{i}')"
            aliases[fname] = f"a{i}"
        if kind == "none":
            h = typing.Optional[h]
        if alias_mode == "annotated":
            h = typing.Annotated[h, BASE_NS["Alias"](f"a{i}")]     # the alias annotates the whole field type
        hn = ctx.inject(h, "_h")
        if kind == "req":
            if meta:
                lines.append(f"    {fname}: {hn} = field({meta[2:]})")
            else:
                lines.append(f"    {fname}: {hn}")
        elif kind == "dflt":
            dv = values(e, ctx)[0]
            lines.append(f"    {fname}: {hn} = " + _default_src(ctx, e, dv).format(meta=meta))
        elif kind == "none":
            lines.append(f"    {fname}: {hn} = field(default=None{meta})")
        else:
            raise ValueError(kind)
        names.append(fname)
        kinds.append(kind)
    if alias_mode == "config":
        extra_cfg["aliases"] = repr(aliases)
    elif alias_mode == "both":
        extra_cfg["aliases"] = repr({fn: "c" + al[1:] for fn, al in aliases.items()})
    lines += _config_src(ctx, extra_cfg)
    if not fields and len(lines) == 2:
        lines.append("    pass")
    cls = ctx.execute(cname, "\n".join(lines))
    ctx.info[d] = dict(cls=cls, fields=names, kinds=kinds, descs=[e for e, _ in fields], aliases=aliases,
                       variant=variant)
    return cls


def _mk_special(d, ctx):
    k, e = d
    h = hint(e, ctx)
    hn = ctx.inject(h, "_h")
    n = ctx.fresh("S")
    MB = ctx.dc.get("base", "DataClassDictMixin")
    cfg = "\n".join(_config_src(ctx))
    cfg = ("\n" + cfg) if cfg else ""
    if k == "dcgen":
        tv = f"T{n}"
        src = (f"{tv} = TypeVar('{tv}')\n@dataclass\nclass G{n}({MB}, Generic[{tv}]):\n"
               f"    x: {tv}\n    xs: List[{tv}]{cfg}\n")
        G = ctx.execute(f"G{n}", src)
        ctx.info[d] = dict(cls=G, kind=k)
        return G[h]
    if k == "dcgeninh":
        tv = f"T{n}"
        src = (f"{tv} = TypeVar('{tv}')\n@dataclass\nclass G{n}(Generic[{tv}]):\n    x: {tv}\n    xs: List[{tv}]\n"
               f"@dataclass\nclass C{n}({MB}, G{n}[{hn}]):\n    own: int = 3{cfg}\n")
        C = ctx.execute(f"C{n}", src)
        ctx.info[d] = dict(cls=C, kind=k)
        return C
    if k == "dcinh":
        src = (f"@dataclass\nclass B{n}({MB}):\n    b: {hn}\n    a: int = 1{cfg}\n"
               f"@dataclass\nclass C{n}(B{n}):\n    a: str = 's'\n    c: Optional[{hn}] = None\n")
        C = ctx.execute(f"C{n}", src)
        ctx.info[d] = dict(cls=C, kind=k)
        return C
    if k == "dcself":
        src = (f"@dataclass\nclass N{n}({MB}):\n    v: {hn}\n    nxt: Optional['N{n}'] = None\n"
               f"    kids: List['N{n}'] = field(default_factory=list){cfg}\n")
        if ctx.mode == "local":
            # a forward reference to a <locals> class can never be resolved; use the module path
            pass
        ctx.run(src)
        C = ctx.ns[f"N{n}"]
        ctx.info[d] = dict(cls=C, kind=k)
        return C
    if k == "dcselft":
        src = (f"@dataclass\nclass N{n}({MB}):\n    v: {hn}\n    nxt: Optional[typing.Self] = None\n"
               f"    kids: List[typing.Self] = field(default_factory=list){cfg}\n")
        C = ctx.execute(f"N{n}", src)
        ctx.info[d] = dict(cls=C, kind=k)
        return C
    if k == "dcfwd":
        src = (f"@dataclass\nclass H{n}({MB}):\n    x: 'L{n}'\n    y: {hn}{cfg}\n"
               f"@dataclass\nclass L{n}:\n    z: {hn}\n    w: int = 0\n")
        ctx.run(src)
        H, Lc = ctx.ns[f"H{n}"], ctx.ns[f"L{n}"]
        ctx.info[d] = dict(cls=H, later=Lc, kind=k)
        return H
    if k == "dcselfg":
        tv = f"TG{n}"
        src = (f"{tv} = TypeVar('{tv}')\n@dataclass\nclass GN{n}({MB}, Generic[{tv}]):\n    v: {tv}\n"
               f"    nxt: Optional['GN{n}[int]'] = None{cfg}\n")
        ctx.run(src)
        G = ctx.ns[f"GN{n}"]
        ctx.info[d] = dict(cls=G, kind=k)
        return G[h]
    if k == "dcmut":
        src = (f"@dataclass\nclass PA{n}:\n    v: {hn}\n    b: Optional['PB{n}'] = None\n"
               f"@dataclass\nclass PB{n}:\n    a: Optional[PA{n}] = None\n    w: int = 0\n")
        ctx.run(src)
        A, B = ctx.ns[f"PA{n}"], ctx.ns[f"PB{n}"]
        ctx.info[d] = dict(cls=A, other=B, kind=k)
        return A
    raise ValueError(d)


# ---------------------------------------------------------------------------------------
# value domains
# ---------------------------------------------------------------------------------------

def pick(vs, k):
    """Up to k values spread over vs, always including the first and the last."""
    if len(vs) <= k:
        return list(vs)
    idx = sorted({round(i * (len(vs) - 1) / (k - 1)) for i in range(k)})
    return [vs[i] for i in idx]


def combine(lists, cap=64):
    """Full product if it has at most cap elements, otherwise every value of every position at
    least once with every other position cycling (diagonal) plus each value against the first
    value of the other positions (star). Returns (tuples, strategy)."""
    total = 1
    for l in lists:
        total *= max(1, len(l))
    if total <= cap:
        return list(itertools.product(*lists)), "product"
    out, seen = [], set()
    m = max(len(l) for l in lists)
    for j in range(m):
        t = tuple(l[j % len(l)] for l in lists)
        out.append(t)
    for i, l in enumerate(lists):
        for v in l[1:]:
            out.append(tuple(v if i2 == i else l2[0] for i2, l2 in enumerate(lists)))
    res = []
    for t in out:
        key = tuple(id(x) for x in t)
        if key not in seen:
            seen.add(key)
            res.append(t)
    return res, "diag+star"


def values(d, ctx: Ctx, top=True):
    """The finite list of conforming values of descriptor d (deterministic)."""
    k = d[0]
    inner = lambda e: values(e, ctx, False)   # noqa: E731
    hint(d, ctx)  # make sure classes exist
    if k == "leaf":
        vs = LEAVES[d[1]][1]
        return list(vs) if top else pick(vs, 4)
    if k in ("list", "seq", "mutseq", "pep585list", "barelist", "collection"):
        vs = inner(d[1])
        return _dedupe([[], [vs[0]], list(vs), list(reversed(vs))])
    if k == "tuplevar":
        vs = inner(d[1])
        return _dedupe([(), (vs[0],), tuple(vs)])
    if k == "deque":
        vs = inner(d[1])
        return [collections.deque(), collections.deque(vs)]
    if k in ("set", "abcset", "mutset"):
        vs = inner(d[1])
        return _dedupe([set(), {vs[0]}, set(vs)])
    if k == "frozenset":
        vs = inner(d[1])
        return _dedupe([frozenset(), frozenset(vs)])
    if k in ("tuple", "pep585tuple"):
        if len(d) == 1:
            return [()]
        combos, _ = combine([inner(e) for e in d[1:]], cap=16)
        return [tuple(c) for c in combos]
    if k == "tupleu":
        pre = [inner(e) for e in d[1]]
        post = [inner(e) for e in d[3]]
        mid = inner(d[2])
        out = []
        for mvals in ((), (mid[0],), tuple(mid)):
            combos, _ = combine(pre + post, cap=4) if pre + post else ([()], "")
            for c in combos:
                out.append(tuple(c[:len(pre)]) + tuple(mvals) + tuple(c[len(pre):]))
        return _dedupe(out)
    if k in ("dict", "mapping", "mutmapping", "pep585dict", "baredict", "ordered", "defaultdict", "mproxy", "chain"):
        ks, vs = inner(d[1]), inner(d[2])
        ks = _hashable_distinct(ks)
        one = {ks[0]: vs[0]}
        many = {kk: vs[i % len(vs)] for i, kk in enumerate(reversed(ks))}
        if k in ("dict", "mapping", "mutmapping", "pep585dict", "baredict"):
            return _dedupe([{}, one, many])
        if k == "ordered":
            return _dedupe([collections.OrderedDict(), collections.OrderedDict(many)])
        if k == "defaultdict":
            fac = _dd_factory(d[2], ctx)
            return _dedupe([collections.defaultdict(fac), collections.defaultdict(fac, many)])
        if k == "mproxy":
            return _dedupe([types.MappingProxyType({}), types.MappingProxyType(many)])
        if k == "chain":
            other = {ks[-1]: vs[-1]}
            return _dedupe([collections.ChainMap(), collections.ChainMap(one, other), collections.ChainMap(many)])
    if k == "counter":
        ks = _hashable_distinct(inner(d[1]))
        return [collections.Counter(), collections.Counter({kk: i + 1 for i, kk in enumerate(ks)})]
    if k in ("opt", "optpipe"):
        return [None] + values(d[1], ctx, top)
    if k in ("union", "pep604"):
        out = []
        for e in d[1:]:
            out.extend(values(e, ctx, top))
        return _dedupe(out)
    if k in ("annotated", "final", "newtype"):
        return values(d[1], ctx, top)
    if k == "tvbound":
        return values(d[1], ctx, top)
    if k == "tvconstr":
        return _dedupe(values(d[1], ctx, top) + values(d[2], ctx, top))
    if k == "nt":
        cls = ctx.info[d]["cls"]
        combos, _ = combine([inner(e) for e, _ in d[1]], cap=16)
        out = [cls(*c) for c in combos]
        return out
    if k == "ntf":
        cls = ctx.info[d]["cls"]
        combos, _ = combine([inner(e) for e in d[1]], cap=16)
        return [cls(*c) for c in combos]
    if k == "td":
        fields = ctx.info[d]["fields"]
        lists = [inner(e) for e, _ in d[1]]
        combos, _ = combine(lists, cap=16)
        out = [dict(zip([f for f, _ in fields], c)) for c in combos]
        # optional keys absent: all subsets of optional keys dropped from the first combination
        opt = [f for f, req in fields if not req]
        base = out[0]
        for r in range(1, len(opt) + 1):
            for drop in itertools.combinations(opt, r):
                out.append({kk: vv for kk, vv in base.items() if kk not in drop})
        return out
    if k == "dc":
        info = ctx.info[d]
        cls = info["cls"]
        lists = []
        for e, kind in d[2]:
            vs = inner(e)
            if kind == "none":
                vs = [None] + vs
            lists.append(vs)
        combos, _ = combine(lists, cap=24 if top else 6)
        out = [cls(**dict(zip(info["fields"], c))) for c in combos] if lists else [cls()]
        return out
    if k == "dcgen":
        G = ctx.info[d]["cls"]
        vs = inner(d[1])
        return [G(vs[0], []), G(vs[-1], list(vs))]
    if k == "dcgeninh":
        C = ctx.info[d]["cls"]
        vs = inner(d[1])
        return [C(vs[0], []), C(vs[-1], list(vs), own=9)]
    if k == "dcinh":
        C = ctx.info[d]["cls"]
        vs = inner(d[1])
        return [C(b=vs[0]), C(b=vs[-1], a="t", c=vs[0])]
    if k in ("dcself", "dcselft"):
        C = ctx.info[d]["cls"]
        vs = inner(d[1])
        return [C(vs[0]), C(vs[0], C(vs[-1]), [C(vs[0]), C(vs[-1], None, [C(vs[0])])])]
    if k == "dcfwd":
        H, Lc = ctx.info[d]["cls"], ctx.info[d]["later"]
        vs = inner(d[1])
        return [H(Lc(vs[0]), vs[-1]), H(Lc(vs[-1], 5), vs[0])]
    if k == "dcselfg":
        G = ctx.info[d]["cls"]
        vs = inner(d[1])
        return [G(vs[0]), G(vs[-1], G(5, G(6)))]
    if k == "dcmut":
        A, B = ctx.info[d]["cls"], ctx.info[d]["other"]
        vs = inner(d[1])
        return [A(vs[0]), A(vs[-1], B(A(vs[0], B()), 4))]
    raise ValueError(d)


def _dd_factory(vd, ctx):
    """default_factory of a decoded DefaultDict[K, V]: the (origin) class of V when V denotes a class, else none."""
    h = hint(vd, ctx)
    while typing.get_origin(h) is typing.Annotated:
        h = typing.get_args(h)[0]
    o = typing.get_origin(h) or h
    if o in (typing.Union, types.UnionType, typing.Any) or not isinstance(o, type):
        return None
    return o


def _hashable_distinct(ks):
    out, seen = [], []
    for x in ks:
        try:
            hash(x)
        except TypeError:
            continue           # e.g. the list / dict values of an Any-typed key position
        if any(x == y and type(x) is type(y) for y in seen) or any(x == y for y in seen):
            continue
        seen.append(x)
        out.append(x)
    return out


def _dedupe(vs):
    out = []
    for v in vs:
        if not any(type(v) is type(o) and _eqrepr(v) == _eqrepr(o) for o in out):
            out.append(v)
    return out


def _eqrepr(v):
    return repr(v)


# ---------------------------------------------------------------------------------------
# structural helpers
# ---------------------------------------------------------------------------------------

def depth(d):
    k = d[0]
    if k == "leaf":
        return 0
    subs = list(children(d))
    return 1 + max([depth(s) for s in subs], default=0)


def children(d):
    k = d[0]
    if k == "leaf":
        return
    if k in ("nt", "td"):
        for e, _ in d[1]:
            yield e
    elif k == "ntf":
        yield from d[1]
    elif k == "dc":
        for e, _ in d[2]:
            yield e
    elif k == "tupleu":
        yield from d[1]
        yield d[2]
        yield from d[3]
    else:
        for x in d[1:]:
            if isinstance(x, tuple):
                yield x


def leaves_of(d):
    if d[0] == "leaf":
        yield d[1]
    else:
        for c in children(d):
            yield from leaves_of(c)


def kinds_of(d):
    yield d[0]
    for c in children(d):
        yield from kinds_of(c)


def show(d):
    """Short human-readable rendering for samples."""
    k = d[0]
    if k == "leaf":
        return d[1]
    if k == "dc":
        return f"dc.{d[1]}(" + ",".join(f"{show(e)}:{kd}" for e, kd in d[2]) + ")"
    if k in ("nt", "td"):
        return f"{k}{'.generic' if len(d) > 2 else ''}(" + ",".join(f"{show(e)}:{kd}" for e, kd in d[1]) + ")"
    if k == "ntf":
        return "ntf(" + ",".join(show(e) for e in d[1]) + ")"
    if k == "tupleu":
        return "tupleu(" + ",".join(show(e) for e in d[1]) + ",*" + show(d[2]) + "," + ",".join(show(e) for e in d[3]) + ")"
    return f"{k}(" + ",".join(show(x) for x in d[1:]) + ")"


# ---------------------------------------------------------------------------------------
# enumeration (DESIGN.md 3.2)
# ---------------------------------------------------------------------------------------
WIRE_LISTY = set(SEQ1) | set(SET1) | {"tuple", "tupleu", "chain", "pep585list", "barelist", "pep585tuple", "ntf", "nt"}
WIRE_DICTY = {"dict", "mapping", "mutmapping", "ordered", "defaultdict", "mproxy", "counter", "td", "dc", "dcgen",
              "dcgeninh", "dcinh", "dcself", "dcselft", "dcfwd", "dcmut", "dcselfg", "pep585dict", "baredict"}


def wire_kinds(d):
    k = d[0]
    if k == "leaf":
        w = LEAVES[d[1]][2]
        return {"int", "float", "bool", "str", "null", "list", "dict"} if w == "any" else {w}
    if k in WIRE_LISTY:
        return {"list"}
    if k in WIRE_DICTY:
        return {"dict"}
    if k in ("opt", "optpipe", "tvbound"):
        return wire_kinds(d[1]) | {"null"}
    if k in ("union", "pep604", "tvconstr"):
        out = set()
        for m in d[1:]:
            out |= wire_kinds(m)
        return out
    return wire_kinds(d[1])


def hashable(d):
    k = d[0]
    if k == "leaf":
        return d[1] in SET_LEAVES or d[1] in KEY_LEAVES
    if k == "frozenset":
        return hashable(d[1])
    if k in ("tuple", "tuplevar"):
        return all(hashable(x) for x in d[1:])
    if k in ("annotated", "newtype"):
        return hashable(d[1])
    if k == "nt":
        return all(hashable(e) for e, _ in d[1])
    if k == "dc":
        return d[1] == "frozen" and all(hashable(e) for e, _ in d[2])
    return False


def keyable(d):
    """Usable as a mapping key: hashable and rendered as a JSON scalar."""
    k = d[0]
    if k == "leaf":
        return d[1] in KEY_LEAVES
    if k in ("annotated", "newtype"):
        return keyable(d[1])
    return False


INT, STR = leaf("int"), leaf("str")


def wrappers(e, level="full"):
    """Every one-constructor wrapping of e. level: 'full' | 'core'."""
    out = []
    core = level == "core"
    out += [("list", e), ("opt", e), ("tuple", e, INT), ("dict", STR, e)]
    out += [("nt", ((e, False), (INT, True))), ("td", ((e, "req"), (INT, "notreq")))]
    out += [("dc", "mixin", ((e, "req"), (INT, "dflt"))), ("dc", "plain", ((e, "req"),))]
    out += [("tupleu", (INT,), e, (STR,))]
    if hashable(e):
        out += [("set", e)]
    if "null" not in wire_kinds(e) and not (wire_kinds(e) & {"int"}):
        out += [("union", INT, e)]
    if core:
        return out
    out += [(c, e) for c in ("seq", "mutseq", "tuplevar", "deque", "pep585list")]
    out += [("tuple", e), ("tuple", STR, e), ("tuple", e, e), ("pep585tuple", e, INT)]
    out += [("tupleu", (), e, ()), ("tupleu", (e,), INT, ()), ("tupleu", (), INT, (e,)), ("tupleu", (INT, e), STR, (e, INT))]
    out += [(c, STR, e) for c in MAP2 if c != "dict"] + [("pep585dict", STR, e), ("dict", INT, e)]
    if hashable(e):
        out += [(c, e) for c in ("frozenset", "abcset", "mutset")]
    if keyable(e):
        out += [("dict", e, INT), ("ordered", e, leaf("date")), ("counter", e), ("defaultdict", e, INT),
                ("chain", e, STR), ("mproxy", e, INT), ("mapping", e, ("list", INT))]
    out += [("optpipe", e), ("annotated", e), ("newtype", e), ("tvbound", e)]
    if "null" not in wire_kinds(e):
        if not (wire_kinds(e) & {"str"}):
            out += [("union", e, STR), ("pep604", STR, e)]
        if not (wire_kinds(e) & {"int", "str"}):
            out += [("union", INT, leaf("none"), e), ("tvconstr", INT, e)]
    out += [("nt", ((e, False),)), ("nt", ((INT, False), (e, True))), ("ntf", (e, STR))]
    out += [("td", ((e, "req"),)), ("td", ((INT, "req"), (e, "notreq"))), ("td", ((e, "total_false"), (STR, "req"))),
            ("td", ((e, "readonly"),))]
    # two parametrisations of ONE generic TypedDict / NamedTuple class side by side in one field
    out += [("tuple", ("td", ((e, "req"), (INT, "notreq")), "generic"), ("td", ((STR, "req"), (INT, "notreq")), "generic")),
            ("tuple", ("nt", ((STR, False), (INT, True)), "generic"), ("nt", ((e, False), (INT, True)), "generic"))]
    for variant in DC_VARIANTS:
        if variant in ("mixin", "plain"):
            continue
        out += [("dc", variant, ((e, "req"), (INT, "dflt")))]
    out += [("dc", "mixin", ((e, "dflt"),)), ("dc", "mixin", ((STR, "req"), (e, "none"))),
            ("dc", "plain", ((INT, "req"), (e, "dflt"), (e, "none"))),
            ("dc", "mixin", ((("final", e), "req"),))]
    out += [(sp, e) for sp in ("dcgen", "dcgeninh", "dcinh", "dcself", "dcselft", "dcfwd", "dcmut", "dcselfg")]
    return out


def valid(d):
    """Descriptors the grammar can produce but Python/typing/the library documents as unsupported."""
    for k in kinds_of(d):
        pass
    return True


def _uniq(seq):
    seen, out = set(), []
    for x in seq:
        if x not in seen:
            seen.add(x)
            out.append(x)
    return out


def nullability_cross():
    """Every structured constructor around an Optional leaf, itself in each context in which the enclosing level has or
    has not already dealt with None (bare Optional / field with default None / required Optional field / inside a list)."""
    out = []
    for n in ("int", "str", "date"):
        inner = ("opt", leaf(n))
        for mid in wrappers(inner, "full"):
            if mid[0] in ("opt", "optpipe", "union", "pep604", "tvconstr", "tvbound"):
                continue
            out += [("opt", mid), ("dc", "mixin", ((mid, "none"),)), ("dc", "plain", ((INT, "req"), (mid, "none"))),
                    ("list", ("opt", mid)), ("dc", "mixin", ((("opt", mid), "req"),))]
    return out


BARE = [("barelist", leaf("any")), ("baredict", leaf("str"), leaf("any"))]      # the builtins `list` and `dict` without parameters


def schemas(tier, leaves=None):
    """All descriptors of the tier, simplest first (DESIGN.md 3.2 table)."""
    leaves = list(leaves or ALL_LEAVES)
    out = [leaf(n) for n in leaves]
    out += BARE
    for b in BARE:
        out += [("union", INT, b), ("opt", b), ("list", b), ("dc", "mixin", ((b, "req"),)), ("newtype", b), ("annotated", b),
                ("dict", STR, ("union", STR, b))]
    d1 = []
    for n in leaves:
        d1 += wrappers(leaf(n), "full")
    out += d1
    rep = [leaf(n) for n in REP_LEAVES]
    # depth 2: full wrappers around full wrappers of the representative alphabet
    d2 = []
    for r in rep:
        for w in wrappers(r, "full"):
            d2 += wrappers(w, "core" if tier == "quick" else "full")
    if tier == "quick":
        for r in rep[:2]:
            for w in wrappers(r, "core"):
                d2 += wrappers(w, "full")
    out += d2
    # depth 3: core wrappers, tiny alphabet (quick) / representative alphabet (thorough)
    d3 = []
    for r in (rep[:2] if tier == "quick" else rep):
        for w1 in wrappers(r, "core"):
            for w2 in wrappers(w1, "core"):
                d3 += wrappers(w2, "core")
    out += d3
    out += nullability_cross()
    if tier == "thorough":
        # depth 2 over the full leaf alphabet with core wrappers, depth 4 over {int, date} with core wrappers
        for n in leaves:
            for w in wrappers(leaf(n), "core"):
                out += wrappers(w, "core")
        for r in rep[:2]:
            for w1 in wrappers(r, "core"):
                for w2 in wrappers(w1, "core"):
                    for w3 in wrappers(w2, "core"):
                        out += wrappers(w3, "core")[:6]
    return _uniq(out)


def has_kind(d, kinds):
    return any(k in kinds for k in kinds_of(d))
