"""Scope predicates of the open known findings (DESIGN.md section 7).

SCOPES[finding id](property id, violation dict) -> bool.  A violation is attributed to a
finding only if the predicate holds; the predicate looks at the recorded case, the failed
clause and the outcome class, never at anything computed at attribution time from the library.
"""

SCOPES = {}


def scope(fid):
    def deco(fn):
        SCOPES[fid] = fn
        return fn
    return deco
