"""Scope predicates of the open known findings (DESIGN.md section 7).

SCOPES[finding id](property id, violation dict) -> bool.  A violation is attributed to a
finding only if the predicate holds; the predicate looks at the recorded case, the failed
clause and the outcome class, never at anything computed at attribution time from the library.
"""

SCOPES = {}


def scope(fid):
    def deco(fn):
        SCOPES[fid] = fn
        return fn
    return deco


@scope("F-TOML-NULL-NONSYNTACTIC")
def _toml_null(pid, v):
    c = v["case"]
    if c.get("format") != "toml":
        return False
    facts = c.get("facts") or {}
    if pid == "C02":
        return (v["clause"] == "ref-encode-neq" and facts.get("only_extra_null_keys") is True
                and facts.get("nonsyntactic_nullable_field") is True)
    if pid == "C04":
        return (v["clause"] == "encode-raised" and v["outcome"] == "TypeError"
                and facts.get("nonsyntactic_nullable_field") is True and facts.get("value_has_null_there") is True)
    return False


@scope("F-UNION-NONE-FALLBACK")
def _union_none(pid, v):
    facts = (v["case"].get("facts") or {})
    if not (facts.get("union3_with_none") is True and facts.get("none_fallback_reproduces") is True):
        return False
    if pid == "C03":
        return v["clause"] in ("accepted-rejected-input", "ref-decode-neq")
    if pid == "C11":
        return v["clause"] in ("union-accepted-rejected-input", "union-ref-decode-neq")
    if pid == "C05":
        return v["clause"] == "swallowed-as-none"
    return False


@scope("F-KWFLAG-MASKS-CALL-DIALECT")
def _kwflag(pid, v):
    facts = (v["case"].get("facts") or {})
    return pid == "C08" and v["clause"] == "project-neq" and v["outcome"] == "ok" and \
        facts.get("kwflag_default_masks_call_dialect") is True


@scope("F-CLASS-NOT-MODULE-ATTRIBUTE")
def _unbound(pid, v):
    f = (v["case"].get("facts") or {})
    if pid != "C17" or f.get("site") != "unbound":
        return False
    co = (v["clause"], v["outcome"])
    if co in (("build-failed", "AttributeError"), ("library-made-error", "AttributeError"), ("name-unresolved", "static")):
        return True
    # decoding the VALID document fails too for the kinds that are converted through their dotted name; dataclasses are
    # bound by object on that path, so for them this clause is NOT part of the finding
    if co == ("library-made-error-on-valid-input", "AttributeError") and f.get("kind") not in ("make_dataclass", "make_dataclass_mixin"):
        return True
    if f.get("shape") in ("union_int", "union_first") and co in (("not-the-annotated-class", "type"), ("roundtrip-raised", "ValueError")):
        return True
    return False


@scope("F-GENERIC-BASE-RESOLUTION")
def _generic_base_resolution(pid, v):
    f = (v["case"].get("facts") or {})
    pat = f.get("generic_inheritance")
    return pid == "C01" and pat in ("typevar-reused", "base-of-nested-arg") and (v["clause"], v["outcome"]) == ("build-failed", "RecursionError")


@scope("F-SCHEMA-LITERAL-UNDER-STRATEGY")
def _schema_literal_strategy(pid, v):
    import json as _json
    c = v["case"]
    f = c.get("facts") or {}
    return (pid == "C06" and v["clause"] == "schema-rejects-serializer-output" and c.get("target") == "strategy"
            and f.get("keywords") == ["enum"] and "literal_int" in _json.dumps(c.get("desc")))


@scope("F-FORMAT-MIXIN-SUBCLASS-FIELDS")
def _fmt_subclass(pid, v):
    f = (v["case"].get("facts") or {})
    return (pid == "C04" and v["clause"] == "document-neq-basic-form" and v["case"].get("format") in ("orjson", "msgpack", "toml")
            and bool(f.get("subclass_instance_in_base_typed_field")) and bool(f.get("serialized_by_the_annotated_class")))


@scope("F-TWIN-QUALIFIED-NAME")
def _twin(pid, v):
    f = (v["case"].get("facts") or {})
    if pid != "C17" or f.get("site") != "twin":
        return False
    return (v["clause"], v["outcome"]) in (("not-the-annotated-class", "twin"), ("roundtrip-raised", "InvalidFieldValue"),
                                           ("roundtrip-raised", "ValueError"))


@scope("F-DISCRIMINATOR-TYPEERROR")
def _disc_typeerror(pid, v):
    f = (v["case"].get("facts") or {})
    if pid != "C05" or f.get("scenario") != "discriminator" or (v["clause"], v["outcome"]) != ("exception-type", "TypeError"):
        return False
    return (f.get("whole") is True and f.get("argument_kind") != "dict") or f.get("unhashable_tag") is True


@scope("F-EMPTY-DATACLASS-NONMAPPING")
def _empty_dc(pid, v):
    f = (v["case"].get("facts") or {})
    return (pid == "C05" and f.get("empty_dataclass") is True and f.get("whole") is True and f.get("argument_kind") != "dict"
            and v["clause"] == "invalid-input-accepted")


@scope("F-SCHEMA-FLAG-ENUM")
def _schema_flag(pid, v):
    f = (v["case"].get("facts") or {})
    ec = set(f.get("error_classes") or [])
    return (pid == "C06" and v["clause"] == "schema-rejects-serializer-output" and f.get("has_flag") is True
            and f.get("flag_value_not_single_member") is True and "enum-int" in ec
            and ec <= ({"enum-int", "keys"} if f.get("has_nonstring_keys") else {"enum-int"}))


@scope("F-SCHEMA-NONSTRING-KEYS")
def _schema_keys(pid, v):
    f = (v["case"].get("facts") or {})
    ec = set(f.get("error_classes") or [])
    return (pid == "C06" and v["clause"] == "schema-rejects-serializer-output" and f.get("has_nonstring_keys") is True
            and ec == {"keys"})


@scope("F-SCHEMA-SELF-REFERENCE")
def _schema_selfref(pid, v):
    f = (v["case"].get("facts") or {})
    if pid not in ("C06", "C20") or v["clause"] != "schema-build-raised" or f.get("self_reference") is not True:
        return False
    return v["outcome"] == "RecursionError" or (v["outcome"] == "TypeError" and f.get("typing_self") is True)


@scope("F-SCHEMA-DEFS-NAME-COLLISION")
def _schema_defs(pid, v):
    f = (v["case"].get("facts") or {})
    return pid == "C06" and v["clause"] == "definitions-shared" and f.get("scenario") in ("same_name_classes", "generic_specialisations")


@scope("F-SCHEMA-INIT-FALSE-FIELD")
def _schema_init_false(pid, v):
    f = (v["case"].get("facts") or {})
    return (pid == "C06" and f.get("scenario") == "init_false_field" and v["clause"] == "schema-rejects-serializer-output"
            and v["outcome"] == "additionalProperties")
