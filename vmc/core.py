"""Runner core: work-unit fan-out, aggregation, known-finding matching,
replay artefacts, evidence files and the exit-code contract (DESIGN.md 2.2-2.4, 7).

A check module (vmc/checks/cNN.py) provides

    PROPERTY  = "C01"
    ENGINE    = "E1 schema-space" | "E2 histories" | "E3 schedules"
    def units(tier) -> list            # picklable, deterministic, complete
    def run_unit(unit) -> UnitResult   # executes every case of the unit on the library
    def replay(case) -> list[dict]     # violations (same dicts) for one recorded case
    ASSUMPTIONS = [...]; def bounds(tier) -> dict; RULE = "..."

The seed only rotates the order in which units are handed to workers.
"""
from __future__ import annotations

import collections
import importlib
import json
import multiprocessing as mp
import os
import signal
import sys
import time
import traceback

ROOT = os.path.dirname(os.path.dirname(os.path.abspath(__file__)))


def out_root():
    """Evidence and replays of the registered commands go to /verif. A run against a scratch copy (VMC_REPO, used only
    to try seeded changes) must not overwrite them: it writes under VMC_OUT or /tmp/vmc_out/<name of the copy>."""
    repo = os.environ.get("VMC_REPO")
    if not repo:
        return ROOT
    out = os.environ.get("VMC_OUT") or os.path.join("/tmp/vmc_out", os.path.basename(repo.rstrip("/")))
    os.makedirs(out, exist_ok=True)
    return out


def setup_paths():
    repo = os.environ.get("VMC_REPO")
    if repo:
        sys.path.insert(0, repo)
    deps = os.path.join(ROOT, ".deps")
    if os.path.isdir(deps) and deps not in sys.path:
        sys.path.append(deps)


class UnitResult:
    """What one work unit covered. All numbers are measured by the unit."""

    __slots__ = ("cases", "nontrivial", "transitions", "states", "outcomes",
                 "violations", "samples", "counters", "capped", "nontrivial_keys")

    def __init__(self):
        self.cases = 0            # executions judged by the oracle
        self.nontrivial = 0       # non-trivial by the check's RULE (distinct by construction)
        self.transitions = 0      # library operations executed
        self.states = 0           # distinct cases / canonical states
        self.outcomes = collections.Counter()   # outcome class -> count (vacuity indicator)
        self.violations = []      # dicts: sig, clause, outcome, case, detail
        self.samples = []         # a few actual cases
        self.counters = collections.Counter()   # extra named counters
        self.capped = False       # a cap or watchdog fired inside the unit
        self.nontrivial_keys = None   # optional set of hashable keys for cross-unit distinctness

    def violation(self, sig, clause, outcome, case, detail=""):
        self.violations.append(dict(sig=sig, clause=clause, outcome=outcome,
                                    case=case, detail=str(detail)[:600]))

    def sample(self, s, cap=3):
        if len(self.samples) < cap:
            self.samples.append(s)


class UnitTimeout(Exception):
    pass


def _alarm(signum, frame):
    raise UnitTimeout()


_MOD = None


def _worker_init(modname, reclimit):
    global _MOD
    setup_paths()
    sys.setrecursionlimit(reclimit)
    _MOD = importlib.import_module(modname)
    signal.signal(signal.SIGALRM, _alarm)


_UNITS_DONE = [0]
_LRU = []


def release_caches():
    """Long-lived workers: the library memoises per CodeBuilder / per class (functools.lru_cache(None) on methods), which pins every
    class a unit ever created. The caches are semantically transparent; they are emptied between units so memory stays bounded."""
    import functools
    import gc
    import typing
    if not _LRU or _UNITS_DONE[0] % 2000 == 0:
        _LRU[:] = [o for o in gc.get_objects() if isinstance(o, functools._lru_cache_wrapper)]
    for w in _LRU:
        try:
            w.cache_clear()
        except Exception:   # noqa: BLE001
            pass
    for cleanup in getattr(typing, "_cleanups", ()):
        cleanup()
    gc.collect()


def _worker_run(arg):
    idx, unit, timeout = arg
    _UNITS_DONE[0] += 1
    if _UNITS_DONE[0] % 40 == 0:
        release_caches()
    signal.alarm(timeout)
    try:
        r = _MOD.run_unit(unit)
        signal.alarm(0)
        return idx, r, None
    except UnitTimeout:
        return idx, None, "timeout"
    except BaseException:
        signal.alarm(0)
        return idx, None, traceback.format_exc()
    finally:
        signal.alarm(0)


def jsonable(x, depth=0):
    """Best-effort conversion of a case to JSON (tuples -> lists, others -> repr)."""
    if depth > 40:
        return repr(x)
    if x is None or isinstance(x, (bool, int, str)):
        return x
    if isinstance(x, float):
        return x if x == x and x not in (float("inf"), float("-inf")) else repr(x)
    if isinstance(x, (list, tuple)):
        return [jsonable(i, depth + 1) for i in x]
    if isinstance(x, dict):
        return {str(k): jsonable(v, depth + 1) for k, v in x.items()}
    return repr(x)


def detuple(x):
    """Inverse of jsonable for descriptors: lists -> tuples, recursively."""
    if isinstance(x, list):
        return tuple(detuple(i) for i in x)
    if isinstance(x, dict):
        return {k: detuple(v) for k, v in x.items()}
    return x


def load_findings():
    with open(os.path.join(ROOT, "known_findings.json")) as f:
        return json.load(f)["findings"]


def run_check(modname, tier, seed, workers=None, only_units=None):
    setup_paths()
    t0 = time.time()
    mod = importlib.import_module(modname)
    pid = mod.PROPERTY
    from vmc import findings as F

    units = list(mod.units(tier))
    if only_units is not None:
        units = units[:only_units]
    n = len(units)
    order = list(range(n))
    if n:
        rot = seed % n
        order = order[rot:] + order[:rot]
    timeout = getattr(mod, "UNIT_TIMEOUT", 120)
    reclimit = getattr(mod, "RECLIMIT", 2000)
    workers = workers or int(os.environ.get("VMC_WORKERS", "0")) or min(16, os.cpu_count() or 1)
    workers = max(1, min(workers, n or 1))

    agg = UnitResult()
    nontrivial_keys = set()
    use_keys = False
    harness_errors = []
    args = [(i, units[i], timeout) for i in order]
    if workers == 1:
        _worker_init(modname, reclimit)
        results = map(_worker_run, args)
        pool = None
    else:
        ctx = mp.get_context("fork")
        pool = ctx.Pool(workers, initializer=_worker_init, initargs=(modname, reclimit),
                        maxtasksperchild=getattr(mod, "MAXTASKS", None))
        results = pool.imap_unordered(_worker_run, args, chunksize=getattr(mod, "CHUNK", 1))
    findings = [f for f in load_findings() if pid in f["properties"]]
    open_f = [f for f in findings if f["status"] == "open"]
    hits = collections.Counter()
    unlisted = collections.OrderedDict()      # sig -> [first violation, count]

    def attribute(v):
        for f in open_f:
            pred = F.SCOPES.get(f["id"])
            if pred is None:
                continue
            try:
                ok = pred(pid, v)
            except Exception:
                ok = False
            if ok:
                hits[f["id"]] += 1
                return
        slot = unlisted.get(v["sig"])
        if slot is None:
            unlisted[v["sig"]] = [v, 1]
        else:
            slot[1] += 1
    capped_units = []
    try:
        for idx, r, err in results:
            if err == "timeout":
                agg.capped = True
                hook = getattr(mod, "on_timeout", None)
                if hook is not None:
                    v = hook(units[idx])
                    if v is not None:
                        attribute(v)
                        continue
                harness_errors.append(f"unit {idx} timed out after {timeout}s: {jsonable(units[idx])!r:.300}")
                continue
            if err is not None:
                harness_errors.append(f"unit {idx} crashed: {jsonable(units[idx])!r:.300}\n{err}")
                continue
            agg.cases += r.cases
            agg.nontrivial += r.nontrivial
            agg.transitions += r.transitions
            agg.states += r.states
            agg.outcomes.update(r.outcomes)
            for v in r.violations:
                attribute(v)         # judged as they arrive: a thorough run may report millions of known-finding cases
            for ck, cv in r.counters.items():
                if ck.startswith("max_"):
                    agg.counters[ck] = max(agg.counters[ck], cv)
                else:
                    agg.counters[ck] += cv
            agg.capped = agg.capped or r.capped
            if r.capped and len(capped_units) < 20:
                capped_units.append(repr(jsonable(units[idx]))[:200])
            if r.nontrivial_keys is not None:
                use_keys = True
                nontrivial_keys |= r.nontrivial_keys
            # seed-selected samples: keep those of a few units
            if len(agg.samples) < 8:
                agg.samples.extend(r.samples[: 8 - len(agg.samples)])
    finally:
        if pool is not None:
            pool.terminate()
            pool.join()
    if use_keys:
        agg.nontrivial = len(nontrivial_keys)

    # ---- findings attribution: see attribute() above --------------------------
    lines = []
    for f in open_f:
        if hits[f["id"]]:
            lines.append(f"KNOWN-FINDING: property={pid} {f['id']} {f['title']} (cases={hits[f['id']]})")
    not_repro = [f["id"] for f in open_f if not hits[f["id"]] and tier in f.get("expected_tiers", ["quick", "thorough"])]

    # ---- replay artefacts, confirmed twice ------------------------------------
    rdir = os.path.join(out_root(), "replays")
    os.makedirs(rdir, exist_ok=True)
    for old in os.listdir(rdir):
        if old.startswith(pid + "-") and old.endswith(".json"):
            os.remove(os.path.join(rdir, old))     # replays of earlier runs of this property are stale
    nondeterministic = []
    nviol = 0
    for k, (sig, (v, vcount)) in enumerate(unlisted.items()):
        if k >= 50:      # replay files are capped; the evidence file has the full count
            nviol += 1
            continue
        path = os.path.join(rdir, f"{pid}-{k + 1:04d}.json")
        with open(path, "w") as fh:
            json.dump(dict(property=pid, module=modname, sig=sig, clause=v["clause"],
                           outcome=v["outcome"], detail=v["detail"], count=vcount,
                           case=jsonable(v["case"])), fh, indent=1)
        if getattr(mod, "CONFIRM_REPLAY", True) and k < 20 and v["clause"] != "timeout":
            ok = []
            for _ in range(2):
                try:
                    ok.append(bool(mod.replay(detuple(jsonable(v["case"])))))
                except Exception as e:   # replay machinery failure
                    ok.append(None)
                    nondeterministic.append(f"replay of {path} raised {type(e).__name__}: {e}")
            if ok == [False, False] or (True in ok and False in ok):
                nondeterministic.append(f"replay of {path} did not reproduce deterministically: {ok}")
        nviol += 1
        if k < 20:
            lines.append(f"VIOLATION property={pid} replay={path}")

    # ---- evidence ---------------------------------------------------------------
    wall = time.time() - t0
    exhaustive = (not agg.capped) and not harness_errors
    cov = dict(
        states=int(agg.states),
        transitions=int(agg.transitions),
        traces_validated_against_impl=int(agg.cases),
        evaluations=int(agg.cases),
        distinct_nontrivial=int(agg.nontrivial),
        rule=getattr(mod, "RULE", ""),
        samples=jsonable(agg.samples) or ["<none>"],
        exhaustive=bool(exhaustive),
        capped_units=capped_units,    # units that stopped at their own cap (their counts are what was covered below it)
        bounds=jsonable(mod.bounds(tier)) if hasattr(mod, "bounds") else {},
        units=n,
        workers=workers,
        engine=getattr(mod, "ENGINE", ""),
        distinct_outcomes=len(agg.outcomes),
        outcome_histogram=dict(agg.outcomes.most_common(40)),
        counters=dict(agg.counters),
        known_findings_hit=dict(hits),
        known_findings_not_reproduced=not_repro,
        unlisted_violation_signatures=nviol,
        harness_errors=len(harness_errors),
    )
    ev = dict(property_id=pid, tier=tier, seed=int(seed), level="model_checking",
              coverage=cov, assumptions=list(getattr(mod, "ASSUMPTIONS", [])),
              wall_s=round(wall, 3), violations=int(nviol))
    os.makedirs(os.path.join(out_root(), "evidence"), exist_ok=True)
    with open(os.path.join(out_root(), "evidence", f"{pid}.json"), "w") as fh:
        json.dump(ev, fh, indent=1, sort_keys=True)

    for ln in lines:
        print(ln)
    print(f"[{pid} {tier}] units={n} cases={agg.cases} states={agg.states} transitions={agg.transitions} "
          f"nontrivial={agg.nontrivial} outcomes={len(agg.outcomes)} known={sum(hits.values())} "
          f"violations={nviol} exhaustive={exhaustive} wall={wall:.1f}s")
    if harness_errors or nondeterministic:
        for e in (harness_errors + nondeterministic)[:10]:
            print("HARNESS-ERROR:", e, file=sys.stderr)
        if nviol:
            return 1
        return 2
    if agg.nontrivial < 2 or agg.cases < 1:
        print("HARNESS-ERROR: vacuous run (distinct_nontrivial < 2)", file=sys.stderr)
        return 2
    return 1 if nviol else 0


def run_replay(modname, path):
    setup_paths()
    mod = importlib.import_module(modname)
    sys.setrecursionlimit(getattr(mod, "RECLIMIT", 2000))
    with open(path) as fh:
        rec = json.load(fh)
    vs = mod.replay(detuple(rec["case"]))
    if vs:
        for v in vs[:5]:
            print(f"REPRODUCED clause={v['clause']} outcome={v['outcome']} detail={v['detail'][:300]}")
        print(f"VIOLATION property={mod.PROPERTY} replay={path}")
        return 1
    print("not reproduced")
    return 0
