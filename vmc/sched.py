"""Engine E3: controlled scheduler for real threads and preemption-bounded exhaustive exploration
(iterative context bounding), DESIGN.md 5.3.

Exactly one controlled thread runs at a time (one semaphore per thread = the baton). Scheduling
points: every `line` event of generated code (frames whose co_filename is '<string>') and every
`call` of the library functions that read or publish class-level state. The library takes no
locks, so no lock needs replacing; a watchdog turns a stuck execution into a reported deadlock.
"""
from __future__ import annotations

import re
import sys
import threading

_HEX = re.compile(r"[0-9a-f]{32}")


def traced_code_objects():
    from mashumaro.core.meta import helpers
    from mashumaro.core.meta.code.builder import CodeBuilder
    from mashumaro.core.meta.types.common import AbstractMethodBuilder, Registry
    fns = [CodeBuilder.reset, CodeBuilder.compile, CodeBuilder._add_setattr_method, Registry.get,
           AbstractMethodBuilder.build, helpers.get_class_that_defines_method, helpers.iter_all_subclasses,
           CodeBuilder.add_pack_method, CodeBuilder.add_unpack_method]
    return {getattr(f, "__func__", f).__code__ for f in fns}


FINE_FILES = ("core/meta/code/builder.py", "core/meta/code/lines.py", "core/meta/types/common.py", "core/meta/types/pack.py",
              "core/meta/types/unpack.py", "core/meta/helpers.py", "core/meta/mixin.py", "mixins/dict.py", "mixins/json.py",
              "mixins/orjson.py", "mixins/msgpack.py", "mixins/yaml.py", "mixins/toml.py", "codecs/_builder.py", "codecs/basic.py",
              "codecs/json.py", "codecs/orjson.py", "codecs/msgpack.py", "dialect.py", "helpers.py")
_SHARED_CALLS = {"setattr", "getattr", "hasattr", "delattr", "exec", "vars"}


def fine_lines():
    """Lines of library source that read or publish state shared between threads, found statically: calls of setattr /
    getattr / hasattr / delattr / exec / vars, any `.__dict__`, `__mashumaro...` or `..._cache` attribute, stores through
    a subscript or attribute of something that is not a local `self` builder field list. Returns {filename: frozenset(lineno)}."""
    import ast
    import os
    import mashumaro
    root = os.path.dirname(mashumaro.__file__)
    out = {}
    for rel in FINE_FILES:
        fn = os.path.join(root, rel)
        if not os.path.exists(fn):
            continue
        tree = ast.parse(open(fn).read())
        lines = set()
        for node in ast.walk(tree):
            if isinstance(node, ast.Call) and isinstance(node.func, ast.Name) and node.func.id in _SHARED_CALLS:
                lines.add(node.lineno)
            elif isinstance(node, ast.Attribute) and (node.attr == "__dict__" or node.attr.endswith("_cache")
                                                      or node.attr.startswith("__mashumaro")):
                lines.add(node.lineno)
            elif isinstance(node, ast.Global):
                lines.add(node.lineno)
        # module-level mutable objects (registries, scratch buffers): every function line that names one
        shared = set()
        for st in tree.body:
            tg = []
            if isinstance(st, ast.Assign):
                tg = [t.id for t in st.targets if isinstance(t, ast.Name)]
                val = st.value
            elif isinstance(st, ast.AnnAssign) and isinstance(st.target, ast.Name) and st.value is not None:
                tg = [st.target.id]
                val = st.value
            else:
                continue
            if isinstance(val, (ast.Dict, ast.List, ast.Set, ast.ListComp, ast.DictComp)) or (
                    isinstance(val, ast.Call) and not (isinstance(val.func, ast.Name) and val.func.id in ("TypeVar", "NewType", "namedtuple", "frozenset", "tuple"))
                    and not (isinstance(val.func, ast.Attribute) and val.func.attr in ("TypeVar", "NewType", "compile"))):
                shared.update(n for n in tg if not n.startswith("__") and n != "__all__")
        if shared:
            for fn_node in ast.walk(tree):
                if isinstance(fn_node, (ast.FunctionDef, ast.Lambda)):
                    for node in ast.walk(fn_node):
                        if isinstance(node, ast.Name) and node.id in shared:
                            lines.add(node.lineno)
        out[fn] = frozenset(lines)
    return out


class Divergence(Exception):
    pass


class Deadlock(Exception):
    pass


class Execution:
    """One controlled execution following `prefix` (list of (choice, signature)), then choice 0."""

    def __init__(self, prefix, codes, watchdog=20.0, fine=None):
        self.prefix = prefix
        self.codes = codes
        self.fine = fine
        self.trace = []      # (n_enabled, chosen index, running still enabled, signature)
        self.sems = {}
        self.done = set()
        self.current = None
        self.main = threading.Semaphore(0)
        self.results = {}
        self.error = None
        self.watchdog = watchdog

    def _pick(self, running, sig):
        enabled = [t for t in sorted(self.sems) if t not in self.done]
        if running in enabled:
            enabled.remove(running)
            enabled.insert(0, running)
        i = len(self.trace)
        if i < len(self.prefix):
            c, exp_sig = self.prefix[i]
            if exp_sig is not None and exp_sig != (len(enabled), running in enabled, sig):
                self.error = Divergence(f"point {i}: expected {exp_sig}, got {(len(enabled), running in enabled, sig)}")
                c = 0
            if c >= len(enabled):
                self.error = Divergence(f"point {i}: choice {c} out of range {len(enabled)}")
                c = 0
        else:
            c = 0
        self.trace.append((len(enabled), c, running in enabled, sig))
        self.current = enabled[c]

    def point(self, tid, sig):
        self._pick(tid, sig)
        if self.current != tid:
            self.sems[self.current].release()
            if not self.sems[tid].acquire(timeout=self.watchdog):
                raise Deadlock()

    def run(self, bodies):
        codes = self.codes
        fine = self.fine

        def mk(tid, body):
            def local(frame, event, arg):
                if event == "line":
                    self.point(tid, (tid, _HEX.sub("#", frame.f_code.co_name), frame.f_lineno))
                return local

            def flocal(frame, event, arg):
                if event == "line" and frame.f_lineno in fine[frame.f_code.co_filename]:
                    self.point(tid, (tid, frame.f_code.co_name, frame.f_lineno))
                return flocal

            def tracer(frame, event, arg):
                code = frame.f_code
                if code.co_filename == "<string>":
                    return local
                if code in codes:
                    self.point(tid, (tid, code.co_name, 0))
                if fine is not None and code.co_filename in fine:
                    return flocal
                return None

            def target():
                self.sems[tid].acquire()
                sys.settrace(tracer)
                try:
                    try:
                        self.results[tid] = body()
                    except Deadlock:
                        self.results[tid] = ("exc", "Deadlock", "")
                    except RecursionError:
                        self.results[tid] = ("exc", "RecursionError", "")
                    except BaseException as e:   # noqa: BLE001
                        self.results[tid] = ("exc", type(e).__name__, str(e)[:120])
                finally:
                    sys.settrace(None)
                    self.done.add(tid)
                    rest = [t for t in sorted(self.sems) if t not in self.done]
                    if rest:
                        self._pick(None, (tid, "<exit>", 0))
                        self.sems[self.current].release()
                    else:
                        self.main.release()
            return threading.Thread(target=target, daemon=True)

        ths = []
        for tid, body in enumerate(bodies):
            self.sems[tid] = threading.Semaphore(0)
            ths.append(mk(tid, body))
        for t in ths:
            t.start()
        self._pick(None, (-1, "<start>", 0))
        self.sems[self.current].release()
        if not self.main.acquire(timeout=self.watchdog * 3):
            self.error = Deadlock("no enabled thread made progress")
        for t in ths:
            t.join(timeout=1.0)
        return self.results, self.trace


def preemptions(trace, upto):
    return sum(1 for (ne, c, rse, _) in trace[:upto] if rse and c != 0)


def explore(make_bodies, judge, bound, codes, shard=(0, 1), max_execs=None, fine=None):
    """Iterative-context-bounded DFS.

    make_bodies() -> (bodies, ctxobj): fresh family for every execution.
    judge(results, ctxobj) -> list of violation details (empty = ok); must dispose ctxobj.
    Returns dict(execs, outcomes Counter-like dict, violations [(schedule, detail)], capped, max_points).
    """
    import collections
    out = dict(execs=0, outcomes=collections.Counter(), violations=[], capped=False, max_points=0,
               with_preemption=0, divergences=0)
    stack = [None]
    first = True
    while stack:
        if len(out["violations"]) >= 6:
            out["capped"] = True     # the run already fails; keep the budget
            break
        node = stack.pop()
        if node is None:
            prefix = []
        else:
            # children share their parent's trace; the prefix is materialised only when the child runs
            ptrace, pi, palt = node
            ne, _, rse, sig = ptrace[pi]
            prefix = [(t[1], (t[0], t[2], t[3])) for t in ptrace[:pi]] + [(palt, (ne, rse, sig))]
        bodies, ctxobj = make_bodies()
        ex = Execution(prefix, codes, fine=fine)
        results, trace = ex.run(bodies)
        if ex.error is not None and isinstance(ex.error, Divergence):
            out["divergences"] += 1
            out["violations"].append(([c for c, _ in prefix], f"HARNESS divergence: {ex.error}", "divergence"))
            judge(results, ctxobj)
            continue
        details = judge(results, ctxobj)
        if ex.error is not None:
            details = list(details) + [("deadlock", str(ex.error))]
        skip_count = False
        # sharding: the root execution belongs to shard 0; its children are dealt round-robin
        children = []
        for i in range(len(prefix), len(trace)):
            ne, c, rse, sig = trace[i]
            base = preemptions(trace, i)
            for alt in range(1, ne):
                if base + (1 if rse else 0) > bound:
                    continue
                children.append((trace, i, alt))
        if first:
            first = False
            if shard[1] > 1:
                children = [ch for j, ch in enumerate(children) if j % shard[1] == shard[0]]
                skip_count = shard[0] != 0
        stack.extend(children)
        if not skip_count:
            out["execs"] += 1
            out["max_points"] = max(out["max_points"], len(trace))
            if preemptions(trace, len(trace)) > 0:
                out["with_preemption"] += 1
            out["outcomes"][repr(sorted(results.items()))[:400]] += 1
            for d in details:
                out["violations"].append(([t[1] for t in trace], d[1] if isinstance(d, tuple) else d,
                                          d[0] if isinstance(d, tuple) else "outcome-neq-twin"))
        if max_execs and out["execs"] >= max_execs:
            out["capped"] = True
            break
    return out


def replay_schedule(make_bodies, judge, choices, codes, fine=None):
    bodies, ctxobj = make_bodies()
    ex = Execution([(c, None) for c in choices], codes, fine=fine)
    results, trace = ex.run(bodies)
    details = judge(results, ctxobj)
    if ex.error is not None:
        details = list(details) + [("harness", str(ex.error))]
    return results, trace, details
