"""C04 — Format codecs are lossless and equal the format encoding of the basic form (engine E1)."""
from __future__ import annotations

import datetime as dt

from vmc import core, e1, formats, ref, space
from vmc.checks import c02

PROPERTY = "C04"
ENGINE = "E1 schema-space"
RULE = ("every format {json, orjson, yaml, msgpack, toml} x every schema of the bounded grammar wrapped in a dataclass field x every value "
        "inside the format's representable subset x entry points {format mixin methods, Encoder/Decoder objects, one-shot functions}: "
        "(a) decode(encode(v)) is `same` as v; (b) the document parsed by the format's own library equals the reference basic form with the "
        "format's declared native types left native and (TOML) null fields absent; (c) mixin document == codec document == one-shot "
        "document; (d) classes with different Config.orjson_options (eager / lazy / self-referencing) defined one after the other: each "
        "to_jsonb equals orjson.dumps under ITS OWN options, a keyword overrides; (e) a field annotated with a base class holding a "
        "subclass instance (class-level discriminator) in 4 shapes x every format mixin: document == format encoding of to_dict(), and back; "
        "(f) 60 strings that look like the formats' own syntax x 6 positions (only / last field, last list item, dict value, dict key, bare document) "
        "x every format x codec and mixin. Non-trivial: the value's basic form differs from the value.")
ASSUMPTIONS = [
    "representable subset (part of the enumerator): string map keys for json/orjson/msgpack/toml, no bool/None/float keys for yaml, 64-bit ints for "
    "orjson/msgpack/toml, naive times for orjson/toml, no null inside containers for toml, table at top level for toml",
    "PyYAML's default dumper sorts mapping keys and tomli_w writes sub-tables after plain keys, so YAML and TOML round trips are compared "
    "without mapping order (OrderedDict included)",
    "TOML has no null: a field holding None is absent from the document and comes back as its default, so it is representable only when "
    "that default is None",
]
UNIT_TIMEOUT = 900
CHUNK = 8


def bounds(tier):
    return dict(tier=tier, formats=list(formats.FORMATS), schemas=len(_schemas(tier)), entry_points=["mixin", "codec", "oneshot"],
                max_depth=1 if tier == "quick" else 2)


def _schemas(tier):
    maxd = 1 if tier == "quick" else 2
    out = [d for d in space.schemas(tier) if space.depth(d) <= maxd]
    if tier == "quick":
        out += [d for d in space.schemas(tier) if space.depth(d) == 2][::7]
    return out


OPTS = ("none", "OPT_OMIT_MICROSECONDS", "OPT_NON_STR_KEYS", "OPT_SORT_KEYS", "OPT_NAIVE_UTC")
STYLES = ("eager", "lazy", "selfref")


def units(tier):
    out = [(d, fmt) for d in _schemas(tier) for fmt in formats.FORMATS]
    # classes with different Config.orjson_options defined one after the other (each eager / lazy / self-referencing)
    # (last element: whether the FIRST to_jsonb call on each class already carries an explicit orjson_options= argument)
    out += [("orjson_options", oa, sa, ob, sb, first) for oa in OPTS for ob in OPTS for sa in STYLES for sb in STYLES
            for first in ("plain-first", "option-first")]
    # strings that look like syntax of the formats themselves, at the first / last / only position of the document
    out += [("strings", fmt, pos) for fmt in formats.FORMATS for pos in STRING_POSITIONS]
    # a field annotated with a base class holding an instance of a subclass (class-level discriminator, so the tag restores the class)
    out += [("subclass", fmt, shape, first) for fmt in formats.FORMATS for shape in ("direct", "list", "opt", "dict")
            for first in ("to_dict", "format")]
    return out


def representable(fmt, tree, top=True):
    """On the reference encoding (native types left in place)."""
    if isinstance(tree, dict):
        for k, v in tree.items():
            if fmt in ("json", "orjson", "msgpack", "toml") and not isinstance(k, str):
                return False      # JSON object keys, msgpack/TOML keys as written by these libraries are strings
            if fmt == "yaml" and (isinstance(k, bool) or k is None or isinstance(k, float)):
                return False
            if not representable(fmt, k, False) or not representable(fmt, v, False):
                return False
        return True
    if isinstance(tree, (list, tuple)):
        return all(representable(fmt, v, False) for v in tree)
    if tree is None:
        return fmt != "toml"
    if isinstance(tree, bool):
        return True
    if isinstance(tree, int):
        return fmt in ("json", "yaml") or -2 ** 63 <= tree < 2 ** 63
    if isinstance(tree, float):
        return tree == tree and abs(tree) != float("inf")
    if isinstance(tree, dt.datetime):
        return True
    if isinstance(tree, dt.time):
        return tree.tzinfo is None
    if isinstance(tree, str):
        # surrogates / NUL are not in the domain; TOML and YAML cannot carry some control characters losslessly
        return True
    return True


def normalise_expected(fmt, tree):
    """What the format's own parser returns for the reference tree."""
    if isinstance(tree, dict):
        return {(_key(fmt, k)): normalise_expected(fmt, v) for k, v in tree.items()}
    if isinstance(tree, (list, tuple)):
        return [normalise_expected(fmt, v) for v in tree]
    if isinstance(tree, bytearray):
        return bytes(tree)
    if fmt == "orjson" and isinstance(tree, (dt.datetime, dt.date, dt.time)):
        return tree.isoformat()
    if fmt == "orjson" and type(tree).__name__ == "UUID":
        return str(tree)
    return tree


def _key(fmt, k):
    if fmt == "json" and not isinstance(k, str):
        return str(k) if not isinstance(k, bool) else str(k).lower()
    return k


def required_null(d, v, ctx):
    """Some dataclass field without a default holds None somewhere in the value."""
    import dataclasses
    k = d[0]
    if v is None:
        return False
    if k == "dc":
        info = ctx.info[d]
        for (e, kind), name in zip(d[2], info["fields"]):
            x = getattr(v, name)
            if x is None and kind in ("req", "dflt"):      # "dflt": the default is a non-None value of the field's domain
                return True
            if x is not None and required_null(e, x, ctx):
                return True
        return False
    if dataclasses.is_dataclass(v) and not isinstance(v, type):
        for f in dataclasses.fields(v):
            x = getattr(v, f.name)
            if x is None and f.default is dataclasses.MISSING and f.default_factory is dataclasses.MISSING:
                return True
            if dataclasses.is_dataclass(x) and required_null(("leaf", "any"), x, ctx):
                return True
            if isinstance(x, list) and any(dataclasses.is_dataclass(i) and required_null(("leaf", "any"), i, ctx) for i in x):
                return True
        return False
    if k in ("opt", "optpipe", "annotated", "final", "newtype", "tvbound"):
        return required_null(d[1], v, ctx)
    if k in ("union", "pep604", "tvconstr"):
        return any(ref.conforms(m, v, ctx) and required_null(m, v, ctx) for m in d[1:])
    if k in ("list", "seq", "mutseq", "tuplevar", "deque", "set", "frozenset", "abcset", "mutset", "pep585list", "barelist"):
        return any(required_null(d[1], x, ctx) for x in v)
    if k in ("tuple", "pep585tuple"):
        return any(required_null(e, x, ctx) for e, x in zip(d[1:], v))
    if k == "tupleu":
        pre, mid, suf = d[1], d[2], d[3]
        n = len(v) - len(suf)
        return (any(required_null(e, x, ctx) for e, x in zip(pre, v)) or any(required_null(mid, x, ctx) for x in v[len(pre):n])
                or any(required_null(e, x, ctx) for e, x in zip(suf, v[n:])))
    if k in ("dict", "mapping", "mutmapping", "ordered", "defaultdict", "mproxy", "pep585dict", "baredict"):
        return any(required_null(d[2], x, ctx) for x in v.values())
    if k == "chain":
        return any(required_null(d[2], x, ctx) for m in v.maps for x in m.values())
    if k == "nt":
        return any(required_null(e, x, ctx) for (e, _), x in zip(d[1], v))
    if k == "ntf":
        return any(required_null(e, x, ctx) for e, x in zip(d[1], v))
    if k == "td":
        return any(required_null(e, v[n], ctx) for (e, _), (n, _r) in zip(d[1], ctx.info[d]["fields"]) if n in v)
    return False


def has_none(x):
    if x is None:
        return True
    if isinstance(x, dict):
        return any(has_none(v) for v in x.values())
    if isinstance(x, (list, tuple)):
        return any(has_none(v) for v in x)
    return False


def run_options(unit):
    """Runs in a forked child: whatever a unit leaves behind in library-global state must neither reach other units of this worker
    nor depend on them (the same unit replayed alone gives the same verdict)."""
    import os
    import pickle
    r, w = os.pipe()
    pid = os.fork()
    if pid == 0:
        try:
            os.close(r)
            data = pickle.dumps(_run_options(unit))
            with os.fdopen(w, "wb") as f:
                f.write(data)
        finally:
            os._exit(0)
    os.close(w)
    with os.fdopen(r, "rb") as f:
        data = f.read()
    os.waitpid(pid, 0)
    return pickle.loads(data)


def _run_options(unit):
    """Each class's to_jsonb must equal orjson.dumps(<its to_dict under the orjson dialect>, option=<ITS OWN Config.orjson_options>),
    whatever other orjson classes were defined before it; an explicit orjson_options= argument overrides."""
    import orjson
    _, oa, sa, ob, sb = unit[:5]
    first = unit[5] if len(unit) > 5 else "plain-first"
    res = core.UnitResult()

    def V(clause, oc, who, detail):
        res.violation(f"{clause}|{unit}|{who}|{oc}", clause, oc, dict(desc=None, format="orjson", entry="options", value_index=-1, unit=unit,
                                                                     facts={}), detail)
    with space.Ctx() as ctx:
        from mashumaro.mixins.orjson import DataClassORJSONMixin
        ctx.ns.update(DataClassORJSONMixin=DataClassORJSONMixin, orjson=orjson, datetime=dt.datetime)
        built = []
        for name, opt, style in (("OA", oa, sa), ("OB", ob, sb)):
            cfg = []
            if opt != "none":
                cfg.append(f"        orjson_options = orjson.{opt}")
            if style == "lazy":
                cfg.append("        lazy_compilation = True")
            src = (f"@dataclass\nclass {name}(DataClassORJSONMixin):\n    when: datetime\n    table: Dict[int, str]\n    b: int = 2\n    a: int = 1\n"
                   + (f"    kids: List['{name}'] = field(default_factory=list)\n" if style == "selfref" else "")
                   + ("    class Config(BaseConfig):\n" + "\n".join(cfg) + "\n" if cfg else ""))
            try:
                ctx.run(src)
                built.append((name, opt))
            except Exception as e:   # noqa: BLE001
                res.cases += 1
                V("build-failed", type(e).__name__, name, repr(e)[:200])
        for name, opt in reversed(built):      # the class defined LAST is looked at first
            cls = ctx.ns[name]
            for table in ({}, {1: "x"}):
                for call_opt in ((None, "OPT_SORT_KEYS") if first == "plain-first" else ("OPT_SORT_KEYS", None)):
                    v = cls(when=dt.datetime(2020, 1, 2, 3, 4, 5, 678901), table=dict(table))
                    option = getattr(orjson, opt) if opt != "none" else None
                    kw = {}
                    if call_opt:
                        option = getattr(orjson, call_opt)
                        kw["orjson_options"] = option
                    res.cases += 1
                    res.transitions += 1
                    want = e1.outcome(lambda: orjson.dumps({"when": v.when, "table": v.table, "b": 2, "a": 1,
                                                            **({"kids": []} if hasattr(v, "kids") else {})}, option=option))
                    got = e1.outcome(lambda: v.to_jsonb(**kw))
                    same_ = (want[0] == got[0] == "exc" and type(want[1]) is type(got[1])) or (want[0] == got[0] == "ok" and want[1] == got[1])
                    if not same_:
                        V("document-neq-own-options", "neq", name, f"{name} (Config.orjson_options={opt}, call={call_opt}) defined "
                          f"{'after ' + built[0][0] + ' (' + built[0][1] + ')' if name == 'OB' else 'first'}: expected={want[1]!r:.150} got={got[1]!r:.150}")
                    else:
                        res.outcomes["ok" if got[0] == "ok" else "format-error"] += 1
                        if opt != "none" or call_opt:
                            res.nontrivial += 1
    res.states += 1
    return res


STRING_POSITIONS = ("only_field", "last_field", "last_list_item", "dict_value", "dict_key", "bare")
SYNTAX_STRINGS = ["...", "wait...", "---", "--- x", "null", "~", "Null", "true", "yes", "no", "on", "1", "1.0", "1e3", "0x1f", "0o7", "2001-01-01",
                  "2001-01-01T00:00:00", "12:30", " lead", "trail ", "\ttab", "a: b", "a:b", "# c", "x #y", "- item", "[1]", "{a: 1}", "{}", "[]", "!tag",
                  "&anchor", "*alias", "|", ">", "%", "@", "`", "'", '"', "''", '\"', "\\", "\\n", "a\nb", "a\r\nb", "\r", "\u2028", "\x85", "\ufeffbom", "\x7f",
                  "=", "a = 1", "[table]", "key.dot", "\U0001F600", "", " "]


def run_strings(unit):
    """str values are data in every format: decode(encode(v)) == v and the parsed document equals the basic form, for strings that
    look like the format's own syntax, placed where an emitter or a post-processing step is most likely to treat them specially."""
    _, fmt, pos = unit
    res = core.UnitResult()
    Enc, Dec = formats.codecs(fmt)
    Mixin, to_name, from_name = formats.mixin(fmt)

    def V(clause, oc, s_, ep, detail):
        res.violation(f"{clause}|strings|{fmt}|{pos}|{ep}|{s_!r}", clause, oc,
                      dict(desc=None, format=fmt, entry=ep, value_index=-1, unit=unit, string=s_, facts={}), detail)
    with space.Ctx() as ctx:
        ctx.ns["_FB"] = Mixin
        if pos == "bare":
            if fmt == "toml":
                res.states += 1
                return res           # a TOML document is a table
            T, mk, get = str, (lambda s_: s_), (lambda v: v)
            M = None
        else:
            hint = {"only_field": "    s: str\n", "last_field": "    a: int\n    s: str\n", "last_list_item": "    a: int\n    s: List[str]\n",
                    "dict_value": "    s: Dict[str, str]\n", "dict_key": "    s: Dict[str, int]\n"}[pos]
            M = ctx.execute("SM", f"@dataclass\nclass SM(_FB):\n{hint}")
            T = ctx.execute("SP", f"@dataclass\nclass SP:\n{hint}")

            def mkargs(s_):
                return {"only_field": dict(s=s_), "last_field": dict(a=1, s=s_), "last_list_item": dict(a=1, s=["x", s_]),
                        "dict_value": dict(s={"k": s_}), "dict_key": dict(s={s_: 1})}[pos]
            mk = lambda s_: T(**mkargs(s_))     # noqa: E731
        enc, dec = Enc(T), Dec(T)
        for s_ in SYNTAX_STRINGS:
            if fmt == "toml" and pos == "dict_key" and False:
                continue
            v = mk(s_)
            routes = [("codec", lambda: enc.encode(v), lambda doc: dec.decode(doc), v)]
            if M is not None:
                mv = M(**mkargs(s_))
                routes.append(("mixin", lambda: getattr(mv, to_name)(), lambda doc: getattr(M, from_name)(doc), mv))
            for ep, E, D, val in routes:
                res.cases += 1
                res.transitions += 2
                r = e1.outcome(E)
                if r[0] == "exc":
                    if fmt in ("toml", "yaml") and isinstance(r[1], (ValueError, TypeError)) and any(ord(c) < 32 or ord(c) == 127 for c in s_):
                        res.counters[f"outside_representable_subset_{fmt}"] += 1      # control characters the format's writer refuses
                        continue
                    V("encode-raised", type(r[1]).__name__, s_, ep, f"string={s_!r} {r[1]!r:.200}")
                    continue
                back = e1.outcome(D, r[1])
                if back[0] == "exc" or back[1] != val:
                    V("roundtrip-neq", "neq", s_, ep, f"string={s_!r} at {pos}: document={r[1]!r:.200} back={back[1]!r:.200}")
                    continue
                try:
                    parsed = formats.parse(fmt, r[1])
                except Exception as e:   # noqa: BLE001
                    V("document-unparseable", type(e).__name__, s_, ep, f"string={s_!r} doc={r[1]!r:.200} {e!r:.150}")
                    continue
                want = s_ if pos == "bare" else mkargs(s_)
                if parsed != want:
                    V("document-neq-basic-form", "neq", s_, ep, f"string={s_!r} at {pos}: expected={want!r} parsed={parsed!r:.200}")
                    continue
                res.outcomes["ok"] += 1
                res.nontrivial += 1
    res.states += 1
    return res


def run_subclass(unit):
    """Root.m is annotated Base and holds A(Base) / B(Base): the format document must be the format encoding of to_dict()
    (the instance's own fields and tag), and decoding it must give the value back."""
    _, fmt, shape, first = unit
    res = core.UnitResult()
    Mixin, to_name, from_name = formats.mixin(fmt)
    # (the Optional field has a default: a null required field cannot come back from TOML, which has no null)
    hint = {"direct": "Base", "list": "List[Base]", "opt": "Optional[Base] = None", "dict": "Dict[str, Base]"}[shape]

    def V(clause, oc, idx, detail, facts):
        res.violation(f"{clause}|subclass|{fmt}|{shape}|{first}|{oc}", clause, oc,
                      dict(desc=None, format=fmt, entry="mixin", value_index=idx, unit=unit, facts=facts), detail)
    with space.Ctx() as ctx:
        ctx.ns["_FB"] = Mixin
        ctx.run("@dataclass\nclass Base(_FB):\n    tag: str\n    class Config(BaseConfig):\n"
                "        discriminator = Discriminator(field='kind', include_subtypes=True)\n")
        ctx.run("@dataclass\nclass A(Base):\n    a: int = 1\n    kind: str = 'A'\n")
        ctx.run("@dataclass\nclass B(Base):\n    b: str = 'x'\n    kind: str = 'B'\n")
        ctx.run(f"@dataclass\nclass Root(_FB):\n    m: {hint}\n    n: int = 0\n")
        ns = ctx.ns
        a, b = ns["A"]("ta", 5), ns["B"]("tb", "y")
        vals = {"direct": [a, b], "list": [[a, b], [b]], "opt": [a, None], "dict": [{"k": a, "l": b}]}[shape]
        for idx, mv in enumerate(vals):
            v = ns["Root"](mv, 3)
            res.cases += 1
            res.transitions += 2
            if first == "to_dict":
                basic = v.to_dict()
                doc = e1.outcome(lambda: getattr(v, to_name)())
            else:
                doc = e1.outcome(lambda: getattr(v, to_name)())
                basic = v.to_dict()
            if doc[0] == "exc":
                V("encode-raised", type(doc[1]).__name__, idx, f"{doc[1]!r:.200}", {})
                continue
            parsed = formats.parse(fmt, doc[1])
            want = basic if fmt != "toml" else formats.drop_none(basic)

            def base_only(x):
                if isinstance(x, dict) and "kind" in x:
                    return {"tag": x["tag"]}
                if isinstance(x, dict):
                    return {k: base_only(y) for k, y in x.items()}
                if isinstance(x, list):
                    return [base_only(y) for y in x]
                return x
            if parsed != want:
                facts = dict(subclass_instance_in_base_typed_field=True, serialized_by_the_annotated_class=parsed == base_only(want))
                V("document-neq-basic-form", "neq", idx, f"value={v!r:.150} to_dict={want!r:.200} parsed {fmt} document={parsed!r:.200}", facts)
                res.outcomes["document-neq"] += 1
                continue
            back = e1.outcome(lambda: getattr(ns["Root"], from_name)(doc[1]))
            if back[0] == "exc" or back[1] != v:
                V("roundtrip-neq", "neq", idx, f"value={v!r:.150} back={back[1]!r:.200}", {})
                continue
            res.outcomes["ok"] += 1
            res.nontrivial += 1
    res.states += 1
    return res


def run_unit(unit, only=None):
    if unit[0] == "orjson_options":
        return run_options(unit)
    if unit[0] == "subclass":
        return run_subclass(unit)
    if unit[0] == "strings":
        return run_strings(unit)
    d, fmt = unit
    res = core.UnitResult()
    Mixin, to_name, from_name = formats.mixin(fmt)
    Enc, Dec = formats.codecs(fmt)
    import importlib
    mod = importlib.import_module(f"mashumaro.codecs.{fmt}")
    one_enc, one_dec = mod.encode, mod.decode
    wd = ("dc", "plain", ((d, "req"),))

    def V(clause, oc, ep, idx, detail, facts=None):
        res.violation(f"{clause}|{space.show(d)}|{fmt}|{ep}|{oc}", clause, oc,
                      dict(desc=d, format=fmt, entry=ep, value_index=idx, facts=facts or {}), detail)
    with space.Ctx() as ctx:
        try:
            P = space.hint(wd, ctx)
            h = space.hint(d, ctx)
            vals = space.values(d, ctx)
            hn = ctx.inject(h, "_h")
            ctx.ns["_FB"] = Mixin
            M = ctx.execute("FM", f"@dataclass\nclass FM(_FB):\n    f0: {hn}\n")
            enc, dec = Enc(P), Dec(P)
        except Exception as e:   # noqa: BLE001
            res.cases += 1
            V("build-failed", type(e).__name__, "build", -1, repr(e)[:300])
            return res
        native = ref.NATIVE.get(fmt, frozenset())
        o = ref.opts(native=native, drop_none_fields=fmt == "toml")
        nonsyn = c02.space_nonsyntactic_nullable_field(wd)
        for idx, v in enumerate(vals):
            if only is not None and only != idx:
                continue
            try:
                exp_tree = ref.encode(wd, P(v), ctx, o)
            except ref.Reject:
                continue
            if not representable(fmt, exp_tree):
                res.counters[f"outside_representable_subset_{fmt}"] += 1
                continue
            if fmt == "toml" and required_null(wd, P(v), ctx):
                # TOML has no null: a required field holding None is simply absent from the document and cannot come back
                res.counters["toml_required_field_is_null"] += 1
                continue
            if space.has_kind(d, {"union", "pep604", "tvconstr"}):
                # unions whose members share a wire form are lossy by the reference reading itself (as in C01)
                # ... judged under the format's own dialect where that dialect passes native types through on BOTH sides (TOML dates,
                # msgpack bytes): there Union[List[date], str] reads the text "a" as the list ["a"] by the reference reading itself
                ou = ref.opts(native=native) if fmt in ("toml", "msgpack") else ref.opts()
                try:
                    lossless = ref.same(ref.decode(d, ref.encode(d, v, ctx, ou), ctx, ou), v)
                    if lossless and ou["native"]:
                        lossless = ref.same(ref.decode(d, ref.encode(d, v, ctx, ref.opts()), ctx, ref.opts()), v)
                except (ref.Reject, ref.Unspecified):
                    lossless = False
                if not lossless:
                    res.counters["skipped_union_shared_wire_form"] += 1
                    continue
            docs = {}
            backs = {}
            paths = {
                "mixin": (lambda: getattr(M(v), to_name)(), lambda doc: getattr(M, from_name)(doc).f0),
                "codec": (lambda: enc.encode(P(v)), lambda doc: dec.decode(doc).f0),
                "oneshot": (lambda: one_enc(P(v), P), lambda doc: one_dec(doc, P).f0),
            }
            failed = False
            for ep, (E, D) in paths.items():
                res.cases += 1
                res.transitions += 2
                r = e1.outcome(E)
                if r[0] == "exc":
                    facts = dict(nonsyntactic_nullable_field=nonsyn, value_has_null_there=False)
                    if fmt == "toml":
                        try:
                            from mashumaro.codecs.basic import BasicEncoder
                            from mashumaro.mixins.toml import TOMLDialect
                            facts["value_has_null_there"] = has_none(BasicEncoder(P, default_dialect=TOMLDialect).encode(P(v)))
                        except Exception:   # noqa: BLE001
                            pass
                    V("encode-raised", type(r[1]).__name__, ep, idx, f"value={v!r:.200} {r[1]!r:.200}", facts)
                    res.outcomes["encode-raised:" + type(r[1]).__name__] += 1
                    failed = True
                    continue
                docs[ep] = r[1]
                r2 = e1.outcome(D, r[1])
                if r2[0] == "exc":
                    V("decode-raised", type(r2[1]).__name__, ep, idx, f"value={v!r:.150} doc={r[1]!r:.150} {r2[1]!r:.150}")
                    failed = True
                    continue
                backs[ep] = r2[1]
                ok = (ref.canon_unordered(r2[1]) == ref.canon_unordered(v)) if fmt in ("yaml", "toml") else ref.same(r2[1], v, dict_order=False)
                if not ok:
                    V("roundtrip-neq", "neq", ep, idx, f"value={v!r:.200} doc={r[1]!r:.150} back={r2[1]!r:.200}")
                    res.outcomes["roundtrip-neq"] += 1
                    failed = True
            if failed:
                continue
            if not (docs["mixin"] == docs["codec"] == docs["oneshot"]):
                V("documents-differ", "neq", "all", idx, f"mixin={docs['mixin']!r:.120} codec={docs['codec']!r:.120} oneshot={docs['oneshot']!r:.120}")
                continue
            res.transitions += 1
            try:
                parsed = formats.parse(fmt, docs["codec"])
            except Exception as e:   # noqa: BLE001
                V("document-unparseable", type(e).__name__, "codec", idx, f"doc={docs['codec']!r:.200} {e!r:.150}")
                continue
            want = normalise_expected(fmt, exp_tree)
            same_doc = (ref.canon_unordered(parsed) == ref.canon_unordered(want)) if fmt == "yaml" else ref.same(parsed, want, dict_order=fmt != "toml")
            if not same_doc:
                V("document-neq-basic-form", "neq", "codec", idx, f"value={v!r:.150} expected={want!r:.200} parsed={parsed!r:.200}")
                res.outcomes["document-neq"] += 1
                continue
            res.outcomes["ok"] += 1
            if not ref.same(exp_tree.get("f0", None), v):
                res.nontrivial += 1
            if idx == 1 and len(res.samples) < 1:
                res.sample(dict(schema=space.show(d), format=fmt, value=repr(v)[:80], document=repr(docs["codec"])[:100]))
    res.states += 1
    return res


def replay(case):
    if case.get("unit") and case["unit"][0] == "strings":
        return [v for v in run_strings(tuple(case["unit"])).violations if v["case"]["string"] == case["string"] and v["case"]["entry"] == case["entry"]]
    if case.get("unit") and case["unit"][0] == "subclass":
        return [v for v in run_subclass(tuple(case["unit"])).violations if v["case"]["value_index"] == case["value_index"]]
    if case.get("unit"):
        return run_options(tuple(case["unit"])).violations
    return [v for v in run_unit((core.detuple(case["desc"]), case["format"]), only=case["value_index"] if case["value_index"] >= 0 else None).violations
            if v["case"]["entry"] == case["entry"]]
