"""C20 — Schema generation is total, well formed and closed (E1 totality + E2 builder histories)."""
from __future__ import annotations

import itertools
import json
import warnings

from vmc import core, hist, space

PROPERTY = "C20"
ENGINE = "E1 schema-space + E2 histories"
RULE = ("(a) every schema-supported schema used as a defaulted field of an owner dataclass x every value of its domain as the default x 12 owner "
        "configurations (omit_none, omit_default, serialize_by_alias + aliases, each of them through Config.dialect, sort_keys, lazy, "
        "namedtuple_as_dict, serialization_strategy) x {DRAFT_2020_12, OPEN_API_3_1} x all_refs x ref_prefix {None, '#/x', '#/x/'} x "
        "with_definitions: no exception, valid against the 2020-12 metaschema, every $ref starts with the prefix and names a collected "
        "definition, JSONSchema.from_dict(to_dict()).to_dict() is the identity; (b) BFS over all orders of JSONSchemaBuilder.build calls for 4 "
        "types sharing nested classes: every result equals a fresh builder's, definitions accumulate to the union independent of order; "
        "(c) BFS over sequences of build_json_schema(T, context=shared, **overrides) on one user-supplied Context: every schema equals the one "
        "built with a fresh equal Context and the user's Context keeps its dialect / all_refs / ref_prefix / plugins. "
        "Non-trivial: the owner configuration is not the default one, or a build after at least one earlier build.")
ASSUMPTIONS = ["metaschema check = jsonschema.Draft202012Validator.check_schema", "self-referencing dataclasses: one open finding"]
UNIT_TIMEOUT = 900
CHUNK = 4
RECLIMIT = 300
L = space.leaf
UNSUPPORTED_LEAVES = {"pattern", "sertype"}

CONFIGS = {
    "default": {},
    "omit_none": {"omit_none": "True"},
    "omit_default": {"omit_default": "True"},
    "by_alias": {"serialize_by_alias": "True", "aliases": "{'x': 'xa'}"},
    "dial_omit_none": {"dialect": "_DOn"},
    "dial_omit_default": {"dialect": "_DOd"},
    "dial_by_alias": {"dialect": "_DBa", "aliases": "{'x': 'xa'}"},
    "all_three": {"omit_none": "True", "omit_default": "True", "serialize_by_alias": "True", "aliases": "{'x': 'xa', 'w': 'wa'}"},
    "sort_keys": {"sort_keys": "True"},
    "lazy": {"lazy_compilation": "True"},
    "nt_as_dict": {"namedtuple_as_dict": "True"},
    "strategy": {"serialization_strategy": "{int: {'serialize': str, 'deserialize': int}}"},
}


def bounds(tier):
    return dict(tier=tier, schemas=len(_schemas(tier)), owner_configs=list(CONFIGS), owner_configs_at_depth_2=["default (one schema in eight)"] if tier == "thorough" else "n/a (quick has depth <= 1)", dialects=2, all_refs=2, ref_prefixes=[None, "#/x", "#/x/"],
                with_definitions=[True, False], builder_history_depth=5, shared_context_history_depth=3,
                shared_contexts=list(CFam.CONTEXTS), per_call_overrides=list(CModel.OVERRIDES),
                combinations="all 14 meaningful (dialect, all_refs, ref_prefix, with_definitions) for the default owner configuration in thorough; 6 covering every value of each elsewhere",
                defaults_per_schema="2; 4 for the default owner configuration in thorough")


def _schemas(tier):
    out = [d for d in space.schemas(tier) if space.depth(d) <= (1 if tier == "quick" else 2)]
    out = [d for d in out if not (set(space.leaves_of(d)) & UNSUPPORTED_LEAVES)]
    if tier == "quick":
        # all leaves, and a third of the depth-1 wrappers (deterministic)
        out = [d for d in out if d[0] == "leaf" or sum(map(ord, space.show(d))) % 8 == 0]
    return out


QUICK_COMBOS = {("DRAFT_2020_12", False, None, True), ("DRAFT_2020_12", True, "#/x/", True), ("OPEN_API_3_1", True, None, True),
                ("OPEN_API_3_1", True, "#/x", True), ("DRAFT_2020_12", True, None, False), ("OPEN_API_3_1", False, "#/x", True)}


def units(tier):
    # quick: a third of the depth <= 1 schemas x every owner configuration x 6 option combinations x 2 defaults.
    # thorough: EVERY depth <= 1 schema x every owner configuration (the default configuration under all 14 option
    # combinations and 4 defaults, the other eleven under the quick procedure), and one depth-2 schema in eight under the
    # default configuration. The full product (119 k units, measured at 1.4-2.6 CPU-seconds each) is 4-5 hours on 16 cores
    # and was never completed; this slice is what a run finishes.
    if tier == "quick":
        out = [("total", d, c, "quick") for d in _schemas(tier) for c in CONFIGS]
    else:
        out = []
        for d in _schemas(tier):
            if space.depth(d) <= 1:
                out += [("total", d, c, "thorough" if c == "default" else "quick") for c in CONFIGS]
            elif sum(map(ord, space.show(d))) % 8 == 0:
                out.append(("total", d, "default", "quick"))
    out += [("hist", variant) for variant in ("plain", "mixin", "all_refs")]
    # a user-supplied Context shared by a sequence of build_json_schema calls with per-call overrides
    out += [("hist", "context:" + c) for c in CFam.CONTEXTS]
    # one builder meeting two different dataclasses that share a __name__
    out += [("hist", v) for v in ("twins", "twins_openapi", "twins_plain")]
    return out


def refs(o):
    if isinstance(o, dict):
        for k, v in o.items():
            if k == "$ref" and isinstance(v, str):
                yield v
            else:
                yield from refs(v)
    elif isinstance(o, list):
        for v in o:
            yield from refs(v)


def _dialects(ns):
    from mashumaro.dialect import Dialect
    ns["_DOn"] = type("DOn", (Dialect,), {"omit_none": True})
    ns["_DOd"] = type("DOd", (Dialect,), {"omit_default": True})
    ns["_DBa"] = type("DBa", (Dialect,), {"serialize_by_alias": True})


def run_total(unit, only=None):
    from jsonschema import Draft202012Validator
    from mashumaro.jsonschema import DRAFT_2020_12, OPEN_API_3_1, build_json_schema
    from mashumaro.jsonschema.models import Context, JSONSchema
    warnings.simplefilter("ignore")
    _, d, cfgname, tier = unit
    res = core.UnitResult()
    selfref = bool({"dcself", "dcselft", "dcmut", "dcselfg"} & set(space.kinds_of(d)))

    def V(clause, oc, key, detail):
        res.violation(f"{clause}|{space.show(d)}|{cfgname}|{oc}", clause, oc,
                      dict(unit=unit, key=key, facts=dict(self_reference=selfref, typing_self="dcselft" in set(space.kinds_of(d)),
                                                          config=cfgname)), detail)
    with space.Ctx() as ctx:
        _dialects(ctx.ns)
        try:
            h = space.hint(d, ctx)
            vals = space.pick(space.values(d, ctx), 2 if tier == "quick" else 4)
        except Exception as e:   # noqa: BLE001
            res.cases += 1
            V("build-failed", type(e).__name__, ("class",), repr(e)[:200])
            return res
        hn = ctx.inject(h, "_h")
        cfg_src = "\n".join(space._config_src(_Cfg(CONFIGS[cfgname])))
        for vi, v in enumerate(vals):
            try:
                dflt = space._default_src(ctx, d, v).format(meta="")
                n = ctx.fresh("Owner")
                P = ctx.execute(n, f"@dataclass\nclass {n}:\n    x: {hn} = {dflt}\n    w: Optional[int] = None\n" + (cfg_src + "\n" if cfg_src else ""))
            except Exception as e:   # noqa: BLE001
                res.counters["owner_class_not_constructible"] += 1
                continue
            for dialect, all_refs, prefix, with_defs in itertools.product((DRAFT_2020_12, OPEN_API_3_1), (False, True), (None, "#/x", "#/x/"),
                                                                          (True, False)):
                key = (vi, "OPEN_API_3_1" if dialect is OPEN_API_3_1 else "DRAFT_2020_12", all_refs, prefix, with_defs)
                if only is not None and tuple(only) != key:
                    continue
                if not with_defs and (prefix is not None or not all_refs):
                    continue
                if tier == "quick" and key[1:] not in QUICK_COMBOS:
                    continue
                res.cases += 1
                res.transitions += 1
                context = Context()
                try:
                    sch = build_json_schema(P, context=context, dialect=dialect, all_refs=all_refs, ref_prefix=prefix, with_definitions=with_defs)
                    out = sch.to_dict()
                except NotImplementedError:
                    res.counters["schema_building_unsupported"] += 1
                    res.outcomes["unsupported"] += 1
                    continue
                except RecursionError:
                    V("schema-build-raised", "RecursionError", key, "RecursionError")
                    res.outcomes["raised"] += 1
                    continue
                except Exception as e:   # noqa: BLE001
                    V("schema-build-raised", type(e).__name__, key, f"default={v!r:.100} {e!r:.200}")
                    res.outcomes["raised"] += 1
                    continue
                try:
                    json.dumps(out)
                except Exception as e:   # noqa: BLE001
                    V("schema-not-json", type(e).__name__, key, f"default={v!r:.100} {e!r:.150} schema={out!r:.200}")
                    continue
                try:
                    Draft202012Validator.check_schema(out)
                except Exception as e:   # noqa: BLE001
                    V("metaschema-invalid", "schema", key, f"{str(e)[:150]} schema={json.dumps(out)[:200]}")
                    continue
                pre = (prefix.rstrip("/") if prefix else dialect.definitions_root_pointer)
                defs = set(context.definitions)
                bad_ref = [r for r in refs(out) if not r.startswith(pre + "/") or r[len(pre) + 1:] not in defs]
                if bad_ref:
                    V("ref-not-closed", "ref", key, f"refs={bad_ref[:3]} prefix={pre} definitions={sorted(defs)}")
                    continue
                if with_defs and defs and set((out.get("$defs") or {})) != defs:
                    V("definitions-missing", "defs", key, f"$defs={sorted(out.get('$defs') or {})} context={sorted(defs)}")
                    continue
                try:
                    rt = JSONSchema.from_dict(out).to_dict()
                except Exception as e:   # noqa: BLE001
                    V("model-roundtrip-raised", type(e).__name__, key, f"{e!r:.200} schema={json.dumps(out)[:200]}")
                    continue
                if rt != out:
                    V("model-roundtrip-neq", "neq", key, f"schema={json.dumps(out)[:200]} roundtrip={json.dumps(rt)[:200]}")
                    continue
                res.outcomes["ok"] += 1
                if cfgname != "default":
                    res.nontrivial += 1
                if len(res.samples) < 1 and vi == 0 and all_refs:
                    res.sample(dict(schema=space.show(d), config=cfgname, default=repr(v)[:60], json_schema=json.dumps(out)[:200]))
    res.states += 1
    return res


class _Cfg:
    def __init__(self, config):
        self.dc = {"config": config}


# ------------------------------------------------------------------------------------------------
class HFam:
    def __init__(self, variant):
        from mashumaro.jsonschema import OPEN_API_3_1, JSONSchemaBuilder
        self.ctx = space.Ctx()
        base = "(DataClassDictMixin)" if variant == "mixin" else ""
        import datetime
        self.ctx.ns["date"] = datetime.date
        self.ctx.run(f"@dataclass\nclass In{base}:\n    a: date\n    z: Optional[int] = None\n")
        self.ctx.run(f"@dataclass\nclass A{base}:\n    i: In\n    n: int = 1\n")
        self.ctx.run(f"@dataclass\nclass B{base}:\n    i: In\n    a: Optional[A] = None\n")
        self.ctx.run(f"@dataclass\nclass C{base}:\n    bs: List[B]\n    d: Dict[str, In] = field(default_factory=dict)\n")
        self.builder = JSONSchemaBuilder(OPEN_API_3_1) if variant == "all_refs" else JSONSchemaBuilder(all_refs=variant != "plain")
        self.built = []

    def dispose(self):
        self.ctx.close()


class HModel:
    TYPES = ("In", "A", "B", "C")

    def __init__(self, variant):
        self.variant = variant
        self._exp = {}
        self._defs = {}

    def initial(self):
        return HFam(self.variant)

    def dispose(self, f):
        f.dispose()

    def enabled(self, h):
        return [("build", t) for t in self.TYPES]

    def apply(self, f, op):
        try:
            out = f.builder.build(f.ctx.ns[op[1]]).to_dict()
            f.built.append(op[1])
            defs = {k: v.to_dict() for k, v in f.builder.context.definitions.items()}
            return ("ok", json.dumps(out, sort_keys=True), json.dumps(defs, sort_keys=True))
        except RecursionError:
            return ("exc", "RecursionError")
        except Exception as e:   # noqa: BLE001
            return ("exc", type(e).__name__, str(e)[:100])

    def _fresh(self, t):
        if t not in self._exp:
            f = self.initial()
            try:
                r = self.apply(f, ("build", t))
            finally:
                f.dispose()
            self._exp[t] = r
        return self._exp[t]

    def expected(self, h, op):
        alone = self._fresh(op[1])
        if alone[0] != "ok":
            return alone
        # definitions == union of the individual builds of everything built so far
        union = {}
        for t in [o[1] for o in h] + [op[1]]:
            r = self._fresh(t)
            if r[0] == "ok":
                union.update(json.loads(r[2]))
        return ("ok", alone[1], json.dumps(union, sort_keys=True))

    def canon(self, f):
        return (tuple(sorted(set(f.built))), tuple(sorted(f.builder.context.definitions)))


class TFam(HFam):
    """Two different dataclasses with ONE __name__ (defined one after the other, as a redefinition or two local classes are), each
    used by a holder of its own, met by one builder."""

    def __init__(self, variant):
        from mashumaro.jsonschema import OPEN_API_3_1, JSONSchemaBuilder
        self.ctx = space.Ctx()
        self.ctx.run("@dataclass\nclass Item:\n    a: int\n")
        self.ctx.ns["Item1"] = self.ctx.ns["Item"]
        self.ctx.run("@dataclass\nclass H1:\n    x: Item1\n    xs: List[Item1] = field(default_factory=list)\n")
        self.ctx.run("@dataclass\nclass Item:\n    b: str\n    c: float = 1.5\n")
        self.ctx.ns["Item2"] = self.ctx.ns["Item"]
        self.ctx.run("@dataclass\nclass H2:\n    y: Optional[Item2] = None\n    ys: Dict[str, Item2] = field(default_factory=dict)\n")
        self.builder = JSONSchemaBuilder(OPEN_API_3_1) if variant == "twins_openapi" else JSONSchemaBuilder(all_refs=variant != "twins_plain")
        self.built = []


class TModel(HModel):
    """Oracle: after build(T), T's document and every definition it can reach equal those of a fresh builder (what other,
    unrelated definitions the builder still holds is not judged: that is F-SCHEMA-DEFS-NAME-COLLISION's territory)."""
    TYPES = ("H1", "H2", "Item1", "Item2")

    def initial(self):
        return TFam(self.variant)

    def apply(self, f, op):
        try:
            out = f.builder.build(f.ctx.ns[op[1]]).to_dict()
            f.built.append(op[1])
            defs = {k: v.to_dict() for k, v in f.builder.context.definitions.items()}
            reach, todo = {}, [out]
            while todo:
                x = todo.pop()
                if isinstance(x, dict):
                    r = x.get("$ref")
                    if isinstance(r, str):
                        name = r.rsplit("/", 1)[-1]
                        if name not in reach and name in defs:
                            reach[name] = defs[name]
                            todo.append(defs[name])
                    todo.extend(x.values())
                elif isinstance(x, list):
                    todo.extend(x)
            return ("ok", json.dumps(out, sort_keys=True), json.dumps(reach, sort_keys=True))
        except RecursionError:
            return ("exc", "RecursionError")
        except Exception as e:   # noqa: BLE001
            return ("exc", type(e).__name__, str(e)[:100])

    def expected(self, h, op):
        return self._fresh(op[1])

    def canon(self, f):
        return (tuple(sorted(set(f.built))), tuple(sorted(json.dumps(v.to_dict(), sort_keys=True)
                                                           for v in f.builder.context.definitions.values())))


class CFam:
    """One user-supplied Context shared by a sequence of build_json_schema(...) calls."""
    CONTEXTS = {"empty": {}, "all_refs": {"all_refs": True}, "openapi": {"dialect": "OPEN_API_3_1"}, "prefix": {"ref_prefix": "#/p"}}

    def __init__(self, variant):
        from mashumaro.jsonschema import builder as jb
        from mashumaro.jsonschema import dialects as jd
        self.ctx = space.Ctx()
        import datetime
        self.ctx.ns["date"] = datetime.date
        self.ctx.run("@dataclass\nclass In:\n    a: date\n    z: Optional[int] = None\n")
        self.ctx.run("@dataclass\nclass A:\n    i: In\n    n: int = 1\n")
        self.jd = jd
        kw = dict(self.CONTEXTS[variant.split(":")[1]])
        if "dialect" in kw:
            kw["dialect"] = getattr(jd, kw["dialect"])
        self.make = lambda: jb.Context(**kw)
        self.context = self.make()
        self.calls = []

    def settings(self, c=None):
        c = c or self.context
        return (type(c.dialect).__name__ + ":" + str(getattr(c.dialect, "uri", "")), c.all_refs, c.ref_prefix, tuple(c.plugins))

    def dispose(self):
        self.ctx.close()


class CModel:
    OVERRIDES = {"plain": {}, "draft": {"dialect": "DRAFT_2020_12"}, "openapi": {"dialect": "OPEN_API_3_1"}, "all_refs": {"all_refs": True},
                 "no_refs": {"all_refs": False}, "prefix": {"ref_prefix": "#/q/"}}

    def __init__(self, variant):
        self.variant = variant
        self._exp = {}

    def initial(self):
        return CFam(self.variant)

    def dispose(self, f):
        f.dispose()

    def enabled(self, h):
        return [("call", t, o) for t in ("In", "A") for o in self.OVERRIDES]

    def _call(self, f, op, context):
        from mashumaro.jsonschema import build_json_schema
        kw = dict(self.OVERRIDES[op[2]])
        if "dialect" in kw:
            kw["dialect"] = getattr(f.jd, kw["dialect"])
        out = build_json_schema(f.ctx.ns[op[1]], context=context, **kw).to_dict()
        out.pop("$defs", None)
        out.pop("definitions", None)
        return json.dumps(out, sort_keys=True)

    def apply(self, f, op):
        before = f.settings()
        try:
            out = self._call(f, op, f.context)
        except RecursionError:
            return ("exc", "RecursionError")
        except Exception as e:   # noqa: BLE001
            return ("exc", type(e).__name__, str(e)[:100])
        f.calls.append(op)
        if f.settings() != before:
            return ("exc", "user-Context-altered", f"{before} -> {f.settings()}")
        return ("ok", out)

    def expected(self, h, op):
        if op not in self._exp:
            f = self.initial()
            try:
                self._exp[op] = ("ok", self._call(f, op, f.make()))
            except Exception as e:   # noqa: BLE001
                self._exp[op] = ("exc", type(e).__name__, str(e)[:100])
            finally:
                f.dispose()
        return self._exp[op]

    def canon(self, f):
        return (f.settings(), tuple(sorted(f.context.definitions)), tuple(sorted(json.dumps(v.to_dict(), sort_keys=True)
                                                                                  for v in f.context.definitions.values())))


def run_hist(unit, only=None):
    _, variant = unit
    res = core.UnitResult()
    model = CModel(variant) if variant.startswith("context:") else (TModel(variant) if variant.startswith("twins") else HModel(variant))
    if only is not None:
        h, op = only
        f = hist.rebuild(model, h)
        try:
            got = model.apply(f, op)
        finally:
            f.dispose()
        exp = model.expected(h, op)
        if got != exp:
            res.violation("replay", "builder-history-dependent", got[1] if got[0] == "exc" else "value", dict(unit=unit, history=h, op=op),
                          f"got={got!r:.300} expected={exp!r:.300}")
        return res
    r = hist.bfs(model, 3 if variant.startswith("context:") else 5)
    res.cases = res.transitions = r.transitions
    res.states = r.states
    res.capped = r.capped
    res.outcomes.update(r.outcomes)
    res.counters["states_with_multiple_predecessors"] += r.multi_pred
    res.counters["max_depth_completed"] = r.max_depth + 1
    res.nontrivial = max(0, r.transitions - 4)
    for (h, op, got, exp) in r.violations:
        oc = got[1] if got[0] == "exc" else "value"
        res.violation(f"builder-history-dependent|{variant}|{op}|{oc}|{len(h)}", "builder-history-dependent", str(oc)[:40],
                      dict(unit=unit, history=h, op=op, facts={}), f"history={h!r} op={op!r} got={got!r:.300} expected={exp!r:.300}")
    for s in r.samples[:1]:
        res.sample(dict(variant=variant, **s))
    return res


def run_unit(unit):
    return run_total(unit) if unit[0] == "total" else run_hist(unit)


def replay(case):
    u = core.detuple(case["unit"])
    if u[0] == "total":
        return run_total(u, only=core.detuple(case["key"]) if case["key"][0] != "class" else None).violations
    h = tuple(tuple(o) for o in core.detuple(case["history"]))
    return run_hist(u, only=(h, tuple(core.detuple(case["op"])))).violations
