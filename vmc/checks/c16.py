"""C16 — Schema-supplied strings are data, never code (engine E1)."""
import dataclasses
import enum
import itertools
import keyword
import sys
import types
from dataclasses import field, make_dataclass
from typing import Annotated, ClassVar, Literal

from vmc import core, space

PROPERTY = "C16"
ENGINE = "E1 schema-space"
RULE = ("ALL strings of length 0..3 (0..4 in thorough) over the adversarial alphabet plus injection payloads carrying a sentinel side effect x "
        "every position (metadata alias, Annotated Alias, Config.aliases, each with and without forbid_extra_keys / allow_deserialization_not_by_alias, "
        "TypedDict required and NotRequired key, discriminator field name, Literal str and bytes value, enum value, namedtuple-as-dict key): the "
        "class or codec must build, serialization must write exactly the string, deserialization must read exactly the string and reject its "
        "one-character / escape-lookalike neighbours, error objects must carry exactly the string, and the sentinel must never fire. "
        "Non-trivial: the string contains a character outside [A-Za-z0-9_].")
ASSUMPTIONS = ["alphabet: ' \" \\\\ newline { } % # a n x 0 e-acute space; payload list in PAYLOADS",
               "namedtuple field names must be identifiers (Python's own rule), so only identifier strings are tried there"]
UNIT_TIMEOUT = 900
CHUNK = 2
ALPHABET = ["'", '"', "\\", "\n", "{", "}", "%", "#", "a", "n", "x", "0", "é", " "]
PAYLOADS = [
    "'+__import__('vmc_sentinel').hit()+'",
    "'), __import__('vmc_sentinel').hit(), ('",
    "', MISSING) or __import__('vmc_sentinel').hit() or d.get('",
    "'] = __import__('vmc_sentinel').hit(); kwargs['",
    "\\'); __import__('vmc_sentinel').hit(); (\\'",
    "'''", '"""', "\\N{DIGIT ONE}", "{0}", "%s", "%(x)s", "a\x00b", "x'\ny", "\\", "\\\\", "a\\", "\\'", "it's", 'say "hi"', "{", "}",
    "__class__", "None", "MISSING", "d", "value", "cls", "self", "kwargs",
    # long strings (identifiers, URNs, sentences): nothing may abbreviate, truncate or hash-collide them
    # characters whose escaped spelling differs between repr(), json.dumps() and str.encode(): outside the Basic Multilingual
    # Plane, combining marks, the line separators Python source does not treat like "\\n", BOM, directional marks, case-folding traps
    "\U0001f600", "price_\U0001f4b0", "\U00020000", "\U0001d11e key", "e\u0301", "\x85", "\u2028", "\u2029", "\x7f", "\ufeff",
    "\u200f", "\xdf", "\u0130", "\xa0", "\x1f",
    "urn:example:schema:alphaalphaalpha:payload-kind/v1.0", "x" * 300, "The quick brown fox's \"lazy\" dog\n" * 4,
]
POSITIONS = ("alias_meta", "alias_annotated", "alias_config", "alias_meta_forbid", "alias_config_forbid", "alias_meta_allow",
             "alias_meta_slowpath", "alias_config_omitdefault", "alias_annotated_byaliasflag",
             "typeddict_req", "typeddict_notreq", "discriminator", "literal_str", "literal_bytes", "enum_value", "nt_as_dict",
             "literal_generic_arg")


def strings(tier):
    out = [""]
    maxlen = 3 if tier == "quick" else 4
    for n in range(1, maxlen + 1):
        out += ["".join(t) for t in itertools.product(ALPHABET, repeat=n)]
    out += PAYLOADS
    seen, res = set(), []
    for s in out:
        if s not in seen:
            seen.add(s)
            res.append(s)
    return res


def bounds(tier):
    return dict(tier=tier, strings=len(strings(tier)), alphabet=ALPHABET, payloads=len(PAYLOADS), positions=list(POSITIONS))


def units(tier):
    ss = strings(tier)
    chunk = 40
    return [(pos, tier, i) for pos in POSITIONS for i in range(0, len(ss), chunk)]


def neighbours(s):
    out = []
    if s:
        out.append(s[:-1] + ("b" if s[-1] != "b" else "c"))
        out.append(s[:-1])
    out.append(s + "z")
    try:
        esc = s.encode("latin-1", "backslashreplace").decode("unicode_escape")
        if esc != s:
            out.append(esc)
    except Exception:   # noqa: BLE001
        pass
    out.append(repr(s)[1:-1])
    return [n for n in dict.fromkeys(out) if n != s]


class Sentinel:
    def __init__(self):
        self.mod = types.ModuleType("vmc_sentinel")
        self.count = 0

        def hit():
            self.count += 1
            return ""
        self.mod.hit = hit
        sys.modules["vmc_sentinel"] = self.mod


def probe(pos, s, ctx):
    """-> list of (clause, detail). Executes the whole scenario for one string at one position."""
    from mashumaro import DataClassDictMixin
    from mashumaro.codecs.basic import BasicDecoder, BasicEncoder
    from mashumaro.config import BaseConfig
    from mashumaro.exceptions import ExtraKeysError, MissingDiscriminatorError, MissingField
    from mashumaro.types import Alias, Discriminator
    from typing_extensions import NotRequired, TypedDict
    bad = []
    ns = {"__module__": ctx.modname}

    def need(cond, clause, detail):
        if not cond:
            bad.append((clause, detail))
    if pos.startswith("alias_"):
        kind = pos.split("_")[1]
        forbid, allow = pos.endswith("_forbid"), pos.endswith("_allow")
        cfg = dict(serialize_by_alias=True, forbid_extra_keys=forbid, allow_deserialization_not_by_alias=allow)
        # to_dict is generated either as one dict literal or statement by statement (kwargs[...] = ...): the latter when a
        # nullable field has a non-trivial packer, under omit_default, or with the by_alias keyword flag
        extra_fields = []
        to_kwargs = {}
        if pos.endswith("_slowpath"):
            import datetime
            from typing import Optional
            extra_fields = [("w", Optional[datetime.date], field(default=None))]
        elif pos.endswith("_omitdefault"):
            cfg["omit_default"] = True
        elif pos.endswith("_byaliasflag"):
            from mashumaro.config import TO_DICT_ADD_BY_ALIAS_FLAG
            cfg["code_generation_options"] = [TO_DICT_ADD_BY_ALIAS_FLAG]
            cfg["serialize_by_alias"] = False
            to_kwargs = {"by_alias": True}
        xt, xf = int, field()
        if kind == "meta":
            xf = field(metadata={"alias": s})
        elif kind == "annotated":
            xt = Annotated[int, Alias(s)]
        else:
            cfg["aliases"] = {"x": s}
        ns["Config"] = type("Config", (BaseConfig,), cfg)
        cls = make_dataclass("K", [("x", xt, xf), ("y", int, field(default=9))] + extra_fields, bases=(DataClassDictMixin,),
                             namespace=ns, module=ctx.modname)
        ctx.ns["K"] = cls
        out = cls(1, 2).to_dict(**to_kwargs)
        out.pop("w", None)
        need(out == {s: 1, "y": 2} and list(out)[0] == s, "wrong-key-written", f"to_dict -> {out!r}")
        r = cls.from_dict({s: 5})
        need((r.x, r.y) == (5, 9), "wrong-key-read", f"from_dict({{s: 5}}) -> {r!r}")
        for n in neighbours(s):
            if allow and n == "x":
                continue
            try:
                r = cls.from_dict({n: 5})
                need(False, "neighbour-accepted", f"key {n!r} accepted for alias {s!r}: {r!r}")
            except MissingField as e:
                need(e.field_name == "x", "wrong-error", f"{e!r}")
            except ExtraKeysError as e:
                need(forbid and e.extra_keys == {n}, "wrong-error", f"{e!r}")
        if forbid:
            try:
                cls.from_dict({s: 5, "zz": 1})
                need(False, "extra-key-accepted", "zz accepted under forbid_extra_keys")
            except ExtraKeysError as e:
                need(e.extra_keys == {"zz"}, "wrong-extra-keys", f"{e.extra_keys!r}")
            r = cls.from_dict({s: 5, "y": 6})
            need((r.x, r.y) == (5, 6), "wrong-key-read", f"{r!r}")
        if allow and s != "x":
            r = cls.from_dict({"x": 7})
            need(r.x == 7, "name-fallback-failed", f"{r!r}")
            r = cls.from_dict({"x": 7, s: 8})
            need(r.x == 8, "alias-should-win", f"{r!r}")
    elif pos.startswith("typeddict_"):
        TD = TypedDict("TD", {s: int, "k": str} if pos.endswith("_req") else {s: NotRequired[int], "k": str})
        TD.__module__ = ctx.modname
        ctx.ns["TD"] = TD
        enc, dec = BasicEncoder(TD).encode, BasicDecoder(TD).decode
        need(enc({s: 1, "k": "v"}) == {s: 1, "k": "v"} or enc({s: 1, "k": "v"}) == {"k": "v", s: 1}, "wrong-key-written",
             f"{enc({s: 1, 'k': 'v'})!r}")
        need(dec({s: 1, "k": "v"}) == {s: 1, "k": "v"}, "wrong-key-read", f"{dec({s: 1, 'k': 'v'})!r}")
        for n in neighbours(s):
            if n == "k":
                continue
            try:
                r = dec({n: 1, "k": "v"})
                need(pos.endswith("_notreq") and r == {"k": "v"}, "neighbour-accepted", f"key {n!r} -> {r!r}")
            except KeyError:
                need(pos.endswith("_req"), "wrong-error", "KeyError for NotRequired key")
    elif pos == "discriminator":
        if s == "" or (s.startswith("__") and s.endswith("__")) or s == "a":
            # field=None/'' means "no discriminator field" (documented Optional[str]); dunder names are class machinery;
            # 'a' is the name of the subclass's own field in this scenario
            return None
        bcfg = type("Config", (BaseConfig,), dict(discriminator=Discriminator(field=s, include_subtypes=True)))
        Base = make_dataclass("Base", [], bases=(DataClassDictMixin,), namespace={"Config": bcfg, "__module__": ctx.modname})
        ctx.ns["Base"] = Base
        Sub = dataclasses.dataclass(type("Sub", (Base,), {s: "sub", "__annotations__": {"a": int}, "__module__": ctx.modname}))
        ctx.ns["Sub"] = Sub
        r = Base.from_dict({s: "sub", "a": 1}) if s != "a" else None
        if s != "a":
            need(type(r) is Sub and r.a == 1, "wrong-key-read", f"{r!r}")
        try:
            Base.from_dict({"a": 1} if s != "a" else {})
            need(False, "neighbour-accepted", "missing discriminator accepted")
        except MissingDiscriminatorError as e:
            need(e.field_name == s, "wrong-error", f"{e!r}")
        for n in neighbours(s):
            if n == "a":
                continue
            try:
                Base.from_dict({n: "sub", "a": 1})
                need(False, "neighbour-accepted", f"discriminator key {n!r} accepted for {s!r}")
            except MissingDiscriminatorError:
                pass
    elif pos in ("literal_str", "literal_bytes"):
        v = s if pos == "literal_str" else s.encode("utf-8", "surrogatepass")
        T = Literal[v]
        enc, dec = BasicEncoder(T).encode, BasicDecoder(T).decode
        wire = enc(v)
        need(dec(wire) == v and type(dec(wire)) is type(v), "wrong-value-read", f"{dec(wire)!r}")
        if pos == "literal_str":
            need(wire == s, "wrong-value-written", f"{wire!r}")
            for n in neighbours(s):
                try:
                    r = dec(n)
                    need(False, "neighbour-accepted", f"{n!r} accepted for Literal[{s!r}] -> {r!r}")
                except ValueError:
                    pass
    elif pos == "literal_generic_arg":
        # two specialisations of one generic dataclass whose arguments are Literal[s] and Literal[twin of s] side by side
        twin = (s[:len(s) // 2] + ("y" if s[len(s) // 2] != "y" else "w") + s[len(s) // 2 + 1:]) if s else "z"
        ctx.ns["T"] = __import__("typing").TypeVar("T")
        ctx.ns["Generic"] = __import__("typing").Generic
        Box = ctx.execute("Box", "@dataclass\nclass Box(Generic[T]):\n    x: T\n")
        H = make_dataclass("H", [("a", Box[Literal[s]]), ("b", Box[Literal[twin]])], bases=(DataClassDictMixin,),
                           namespace={"__module__": ctx.modname})
        ctx.ns["H"] = H
        h = H(Box(s), Box(twin))
        wire = h.to_dict()
        need(wire == {"a": {"x": s}, "b": {"x": twin}}, "wrong-value-written", f"{wire!r}")
        back = H.from_dict({"a": {"x": s}, "b": {"x": twin}})
        need(back == h, "wrong-value-read", f"{back!r}")
        for bad_in in ({"a": {"x": twin}, "b": {"x": twin}}, {"a": {"x": s}, "b": {"x": s}}):
            try:
                r = H.from_dict(bad_in)
                need(False, "neighbour-accepted", f"{bad_in!r} accepted -> {r!r}")
            except ValueError:
                pass
    elif pos == "enum_value":
        E = enum.Enum("E", {"A": s, "B": s + "!"})
        E.__module__ = ctx.modname
        ctx.ns["E"] = E
        enc, dec = BasicEncoder(E).encode, BasicDecoder(E).decode
        need(enc(E.A) == s, "wrong-value-written", f"{enc(E.A)!r}")
        need(dec(s) is E.A, "wrong-value-read", f"{dec(s)!r}")
        for n in neighbours(s):
            if n == s + "!":
                continue
            try:
                r = dec(n)
                need(False, "neighbour-accepted", f"{n!r} -> {r!r}")
            except ValueError:
                pass
    elif pos == "nt_as_dict":
        import collections
        if not (s.isidentifier() and not keyword.iskeyword(s) and not s.startswith("_")):
            return None
        from mashumaro.dialect import Dialect
        NT = collections.namedtuple("NT", [s, "other"])
        NT.__annotations__ = {s: int, "other": str}
        NT.__module__ = ctx.modname
        ctx.ns["NT"] = NT

        class D(Dialect):
            namedtuple_as_dict = True
        enc, dec = BasicEncoder(NT, default_dialect=D).encode, BasicDecoder(NT, default_dialect=D).decode
        need(enc(NT(1, "o")) == {s: 1, "other": "o"}, "wrong-key-written", f"{enc(NT(1, 'o'))!r}")
        need(dec({s: 1, "other": "o"}) == NT(1, "o"), "wrong-key-read", "")
    return bad


def run_unit(unit, only=None):
    pos, tier, start = unit
    res = core.UnitResult()
    sent = Sentinel()
    ss = strings(tier)[start:start + 40]
    for s in ss:
        if only is not None and s != only:
            continue
        with space.Ctx() as ctx:
            res.transitions += 1
            before = sent.count
            try:
                bad = probe(pos, s, ctx)
            except RecursionError:
                bad = [("build-or-call-raised", "RecursionError")]
            except Exception as e:   # noqa: BLE001
                bad = [("build-or-call-raised", f"{type(e).__name__}: {e!s:.200}")]
            if bad is None:
                res.counters["not_applicable_by_python_rule"] += 1
                continue
            res.cases += 1
            if sent.count != before:
                bad = list(bad) + [("sentinel-fired", f"payload executed {sent.count - before} time(s)")]
            if bad:
                clause, detail = bad[0]
                oc = detail.split(":")[0] if clause == "build-or-call-raised" else clause
                res.outcomes[clause] += 1
                res.violation(f"{clause}|{pos}|{s!r}", clause, oc,
                              dict(position=pos, string=s, tier=tier, start=start, facts=dict(string_class=string_class(s))),
                              f"string={s!r} {detail}")
            else:
                res.outcomes["ok"] += 1
                if not s.replace("_", "a").isalnum() or not s.isascii():
                    res.nontrivial += 1
                if len(res.samples) < 1 and len(s) == 2:
                    res.sample(dict(position=pos, string=s))
    res.states += 1
    sys.modules.pop("vmc_sentinel", None)
    return res


def string_class(s):
    """Which feature of the string matters for the splice sites."""
    cls = []
    if s == "":
        cls.append("empty")
    if "'" in s:
        cls.append("single-quote")
    if "\\" in s:
        cls.append("backslash")
    if "\n" in s:
        cls.append("newline")
    if "\x00" in s:
        cls.append("nul")
    return cls


def replay(case):
    return run_unit((case["position"], case["tier"], case["start"]), only=case["string"]).violations
