"""C09 — Input keys are resolved by the documented alias rules (engine E1, key-subset lattice)."""
import dataclasses
import itertools
from dataclasses import MISSING, field, make_dataclass
from typing import Annotated, ClassVar

from vmc import core, space

PROPERTY = "C09"
ENGINE = "E1 schema-space"
RULE = ("every alias assignment over the three alias sources for a required and a defaulted field x (allow_deserialization_not_by_alias, "
        "forbid_extra_keys) x class-level discriminator present or not x fields declared in one class or split over a parent and a subclass x entry point x ALL subsets of the candidate key set: result or "
        "exception must equal KEYMODEL. Non-trivial: the input contains at least one key that is not the chosen key of a field "
        "(an alias/name/stranger decision is exercised).")
ASSUMPTIONS = ["two fields (required x, defaulted y); candidate keys: names, every source's alias, a stranger, 'None', the discriminator key"]
UNIT_TIMEOUT = 600
CHUNK = 4
CAND = ["x", "xM", "xA", "xC", "y", "yM", "yA", "yC", "zz", "None", "kind", "xTop"]


def bounds(tier):
    return dict(tier=tier, alias_assignments=64, flags=4, field_types=["int (converted)", "Any (passed through)"], discriminator=[False, True], inheritance=["flat", "x in parent / y in subclass", "x in grandparent under another alias, re-declared by the parent, y in subclass", "x in a parent whose own Config has the opposite allow flag"], entry_points=["mixin", "codec", "via-base"],
                candidate_keys=CAND, key_subsets=2 ** len(CAND))


def units(tier):
    out = []
    for xs in itertools.product((0, 1), repeat=3):
        for ys in itertools.product((0, 1), repeat=3):
            for allow, forbid in itertools.product((False, True), repeat=2):
                for discr in (False, True):
                    for anytyped in (False, True):      # int fields are converted, Any fields are passed through as they are
                        # x declared by a parent class with the same Config, y added by the subclass; 2 = three levels: a grandparent
                        # declares x under ANOTHER metadata alias, the parent re-declares it, the subclass adds y
                        # 3 = like True, but the parent's own Config has the OPPOSITE allow_deserialization_not_by_alias (the Config in
                        # effect for the class being loaded decides, not the one of the class that declares the field)
                        for inherit in (False, True, 2, 3):
                            out.append((xs, ys, allow, forbid, discr, anytyped, inherit))
    return out


def build(xs, ys, allow, forbid, discr, mixin, ctx, anytyped=False, inherit=False):
    from mashumaro import DataClassDictMixin
    from mashumaro.config import BaseConfig
    from mashumaro.types import Alias, Discriminator
    xm, xa, xc = xs
    ym, ya, yc = ys
    from typing import Any
    base_t = Any if anytyped else int
    xt = Annotated[base_t, Alias("xA")] if xa else base_t
    yt = Annotated[base_t, Alias("yA")] if ya else base_t
    xf = field(metadata={"alias": "xM"}) if xm else field()
    yf = field(default=9, metadata={"alias": "yM"}) if ym else field(default=9)
    aliases = {}
    if xc:
        aliases["x"] = "xC"
    if yc:
        aliases["y"] = "yC"
    cfg = dict(aliases=aliases, allow_deserialization_not_by_alias=allow, forbid_extra_keys=forbid)
    bases = (DataClassDictMixin,) if mixin else ()
    base = None
    parent = None

    def mk_parent(pbases):
        # the parent is a complete class of its own (compiled first, same flags, its own alias table)
        pcfg = type("Config", (BaseConfig,), dict(cfg, aliases={k: v for k, v in aliases.items() if k == "x"}))
        if inherit == 3:
            pcfg = type("Config", (BaseConfig,), dict(cfg, aliases={k: v for k, v in aliases.items() if k == "x"},
                                                      allow_deserialization_not_by_alias=not allow))
        if inherit == 2:
            top = make_dataclass("Top", [("x", base_t, field(metadata={"alias": "xTop"}))], bases=pbases,
                                 namespace={"Config": pcfg, "__module__": ctx.modname})
            ctx.ns["Top"] = top
            pbases = (top,)
        par = make_dataclass("Par", [("x", xt, xf)], bases=pbases, namespace={"Config": pcfg, "__module__": ctx.modname})
        ctx.ns["Par"] = par
        return par
    if discr:
        bcfg = type("Config", (BaseConfig,), dict(discriminator=Discriminator(field="kind", include_subtypes=True)))
        base = make_dataclass("Base", [], bases=bases, namespace={"Config": bcfg, "__module__": ctx.modname})
        ctx.ns["Base"] = base
        Cfg = type("Config", (BaseConfig,), cfg)
        kfields = [("x", xt, xf), ("y", yt, yf), ("kind", ClassVar[str], field(default="s"))]
        kbase = base
        if inherit:
            kbase = mk_parent((base,))
            kfields = kfields[1:]
        cls = make_dataclass("K", kfields, bases=(kbase,),
                             namespace={"Config": Cfg, "__module__": ctx.modname})
        cls.kind = "s"
        ctx.ns["K"] = cls
    else:
        Cfg = type("Config", (BaseConfig,), cfg)
        kfields = [("x", xt, xf), ("y", yt, yf)]
        if inherit:
            bases = (mk_parent(bases),)
            kfields = kfields[1:]
        cls = make_dataclass("K", kfields, bases=bases,
                             namespace={"Config": Cfg, "__module__": ctx.modname})
        ctx.ns["K"] = cls
    x_alias = "xM" if xm else ("xA" if xa else ("xC" if xc else None))
    y_alias = "yM" if ym else ("yA" if ya else ("yC" if yc else None))
    return cls, base, x_alias, y_alias


def keymodel(d, x_alias, y_alias, allow, forbid, discr):
    accepted = set()

    def look(name, alias):
        keys = [alias or name]
        if allow and alias:
            keys.append(name)
        accepted.update(keys)
        for k in keys:
            if k in d:
                return d[k]
        return MISSING
    vx, vy = look("x", x_alias), look("y", y_alias)
    if discr:
        accepted.add("kind")
    extra = set(d) - accepted
    if forbid and extra:
        return ("ExtraKeysError", frozenset(extra))
    if vx is MISSING:
        return ("MissingField", "x")
    return {"x": vx, "y": 9 if vy is MISSING else vy}


def run_unit(unit, only=None):
    from mashumaro.codecs.basic import BasicDecoder
    from mashumaro.exceptions import ExtraKeysError, MissingField
    xs, ys, allow, forbid, discr, anytyped = unit[:6]
    inherit = unit[6] if len(unit) > 6 else False
    res = core.UnitResult()
    eps = []
    ctx1, ctx2 = space.Ctx(), space.Ctx()
    cls, base, xal, yal = build(xs, ys, allow, forbid, discr, True, ctx1, anytyped, inherit)
    eps.append(("mixin", cls, cls.from_dict))
    if discr:
        eps.append(("via-base", cls, base.from_dict))
    clsp, _, _, _ = build(xs, ys, allow, forbid, discr, False, ctx2, anytyped, inherit)
    eps.append(("codec", clsp, BasicDecoder(clsp).decode))
    res.transitions += 3
    cand = CAND if inherit == 2 else CAND[:-1]       # the grandparent's alias is a candidate key only where there is a grandparent
    for mask in range(1 << len(cand)):
        d = {k: (10 + i if k != "kind" else "s") for i, k in enumerate(cand) if mask >> i & 1}
        for ep, c, fn in eps:
            if ep == "via-base" and "kind" not in d:
                continue
            if only is not None and only != (ep, mask):
                continue
            want = keymodel(d, xal, yal, allow, forbid, discr)
            res.cases += 1
            res.transitions += 1
            din = dict(d)
            try:
                r = fn(din)
                got = {f.name: getattr(r, f.name) for f in dataclasses.fields(r)}
                if type(r) is not c:
                    got = ("WRONGCLASS", type(r).__name__)
            except ExtraKeysError as e:
                got = ("ExtraKeysError", frozenset(e.extra_keys))
            except MissingField as e:
                got = ("MissingField", e.field_name)
            except Exception as e:   # noqa: BLE001
                got = ("EXC", type(e).__name__, str(e)[:100])
            if din != d:
                got = ("INPUT-MUTATED", repr(din))
            if got != want:
                oc = got[0] if isinstance(got, tuple) else "value"
                res.outcomes["neq:" + oc] += 1
                res.violation(f"keymodel-neq|{unit}|{ep}|{oc}", "keymodel-neq", oc, dict(unit=unit, entry=ep, mask=mask),
                              f"input={d!r} want={want!r} got={got!r}")
            else:
                res.outcomes[want[0] if isinstance(want, tuple) else "instance"] += 1
                chosen = {xal or "x", yal or "y"}
                if set(d) - chosen:
                    res.nontrivial += 1
                if mask == 0b10011 and len(res.samples) < 1:
                    res.sample(dict(alias_sources_x=xs, alias_sources_y=ys, allow=allow, forbid=forbid, discriminator=discr,
                                    input=repr(d), result=repr(got)))
    res.states += 1
    ctx1.close()
    ctx2.close()
    return res


def replay(case):
    u = core.detuple(case["unit"])
    return run_unit((tuple(u[0]), tuple(u[1])) + tuple(u[2:]), only=(case["entry"], case["mask"])).violations
