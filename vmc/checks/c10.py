"""C10 — The most specific customization wins (engine E1, customization lattice)."""
import datetime
import itertools
import typing
from dataclasses import field, make_dataclass
from typing import Annotated, List

from vmc import core, space

PROPERTY = "C10"
ENGINE = "E1 schema-space"
RULE = ("every subset of the six customization levels x every non-empty subset of the three type keys per key-bearing level x strategy "
        "form (dict / SerializationStrategy / pass_through at the winner) x entry point (mixin with call dialect, Basic codec with "
        "default_dialect, orjson mixin over the format dialect) x direction: each registration writes a distinct marker and the marker "
        "observed must be the lexicographic minimum under (field options, key specificity, level). Non-trivial: at least two "
        "registrations compete.")
ASSUMPTIONS = ["one field annotated Annotated[List[int], 'tag'] (keys: alias / exact List[int] / origin list); orjson family uses datetime"]
UNIT_TIMEOUT = 600
CHUNK = 32

KEY_ORDER = ["alias", "exact", "origin"]
LEVELS = ["fopt", "fstrat", "calld", "cfgd", "cfgss", "fmtd"]
KEYSETS = [ks for r in (1, 2, 3) for ks in itertools.combinations(KEY_ORDER, r)]
FORMS = ["dict", "strategy", "pass_through"]
SPLIT_SLOTS = ["fstrat", "calld:exact", "cfgd:alias", "cfgd:exact", "cfgss:exact", "cfgss:origin", "fmtd:exact", "fmtd:alias"]


def bounds(tier):
    return dict(tier=tier, levels=LEVELS, keys=KEY_ORDER, keysets=len(KEYSETS), forms=FORMS,
                one_direction_slots=SPLIT_SLOTS if tier == "thorough" else SPLIT_SLOTS[:7], entry_points=["mixin(+call dialect)", "basic codec(+default_dialect)", "orjson mixin"], directions=2)


def units(tier):
    out = []
    for fopt, fstrat in itertools.product((0, 1), repeat=2):
        for ks4 in itertools.product([None] + KEYSETS, repeat=4):
            if ks4[0] and ks4[3]:
                continue    # no entry point takes both a call dialect and a codec default_dialect
            for form in FORMS:
                out.append(("list", fopt, fstrat, ks4, form))
    # one-direction dict registrations: every slot is absent, serialize-only, deserialize-only or both
    slots = SPLIT_SLOTS if tier == "thorough" else SPLIT_SLOTS[:7]
    for fopt in ((0, 1, 2, 3) if tier == "thorough" else (0,)):
        for masks in itertools.product((0, 1, 2, 3), repeat=len(slots)):
            present = {sl.split(":")[0] for sl, m in zip(slots, masks) if m}
            if "calld" in present and "fmtd" in present:
                continue
            out.append(("split", fopt, 0, masks, "dict"))
    # SerializationStrategy(use_annotations=True) registrations (converted through the types its methods are annotated with) competing
    # with plain ones: every choice of at most two of the eight slots, each plain or annotated
    for n_present in (1, 2):
        for slots_ in itertools.combinations(range(len(SPLIT_SLOTS)), n_present):
            for kinds in itertools.product(("plain", "annotated"), repeat=n_present):
                present = {SPLIT_SLOTS[i].split(":")[0] for i in slots_}
                if "calld" in present and "fmtd" in present:
                    continue
                if "annotated" in kinds:
                    out.append(("annotated", slots_, kinds))
    # several registered types inside ONE field: a named tuple rendered by an engine NAME, an unregistered named tuple, a date with a marker
    for engine in ("as_dict", "as_list", None):
        for l1 in LEVELS[2:]:
            for l2 in [None] + LEVELS[2:]:
                for order in ("stamp-first", "date-first"):
                    if {l1, l2} >= {"calld", "fmtd"}:
                        continue
                    out.append(("composite", engine, l1, l2, order))
    okeys = [None, ("alias",), ("exact",), ("alias", "exact")]
    for fopt, fstrat in itertools.product((0, 1), repeat=2):
        for ks3 in itertools.product(okeys, repeat=3):
            for form in FORMS:
                out.append(("orjson", fopt, fstrat, ks3 + (None,), form))
    return out


def run_unit(unit, only=None):
    from mashumaro import DataClassDictMixin, pass_through
    from mashumaro.codecs.basic import BasicDecoder, BasicEncoder
    from mashumaro.config import ADD_DIALECT_SUPPORT, BaseConfig
    from mashumaro.dialect import Dialect
    from mashumaro.mixins.orjson import DataClassORJSONMixin
    from mashumaro.types import SerializationStrategy

    family = unit[0]
    res = core.UnitResult()
    if family == "annotated":
        return run_annotated(unit, res)
    family, fopt, fstrat, ks4, form = unit
    if family == "split":
        return run_split(unit, res)
    if family == "composite":
        return run_composite(unit, res)
    if family == "annotated":
        return run_annotated(unit, res)

    class Strat(SerializationStrategy):
        def __init__(self, m):
            self.m = m

        def serialize(self, v):
            return ("S", self.m)

        def deserialize(self, v):
            return ("D", self.m)

    if family == "list":
        Ann = Annotated[List[int], "tag"]
        KEYS = {"alias": Ann, "exact": List[int], "origin": list}
        value, wire = [1], [1]
    else:
        Ann = Annotated[datetime.datetime, "tag"]
        KEYS = {"alias": Ann, "exact": datetime.datetime}
        value, wire = datetime.datetime(2020, 1, 2, 3, 4, 5), "2020-01-02T03:04:05"

    cand = []
    if fopt:
        cand.append(((0, 0, 0), "fopt"))
    if fstrat:
        cand.append(((1, 0, 0), "fstrat"))
    for li, (lname, ks) in enumerate(zip(LEVELS[2:], ks4), start=2):
        for k in ks or ():
            cand.append(((2, KEY_ORDER.index(k), li), f"{lname}:{k}"))
    want = min(cand)[1] if cand else None
    pt = form == "pass_through"

    def registration(marker):
        if pt and marker == want:
            return pass_through
        if form == "strategy":
            return Strat(marker)
        return {"serialize": (lambda v, m=marker: ("S", m)), "deserialize": (lambda v, m=marker: ("D", m))}

    def reg(level, ks):
        return {KEYS[k]: registration(f"{level}:{k}") for k in ks}

    meta = {}
    if fopt:
        if pt and want == "fopt":
            meta["serialize"] = pass_through
            meta["deserialize"] = pass_through
        else:
            meta["serialize"] = lambda v: ("S", "fopt")
            meta["deserialize"] = lambda v: ("D", "fopt")
    if fstrat:
        meta["serialization_strategy"] = registration("fstrat")
    cfg = {"code_generation_options": [ADD_DIALECT_SUPPORT]}
    calld = fmtd = None
    ks_calld, ks_cfgd, ks_cfgss, ks_fmtd = ks4
    if ks_calld:
        calld = type("CD", (Dialect,), {"serialization_strategy": reg("calld", ks_calld)})
    if ks_cfgd:
        cfg["dialect"] = type("GD", (Dialect,), {"serialization_strategy": reg("cfgd", ks_cfgd)})
    if ks_cfgss:
        cfg["serialization_strategy"] = reg("cfgss", ks_cfgss)
    if ks_fmtd:
        fmtd = type("FD", (Dialect,), {"serialization_strategy": reg("fmtd", ks_fmtd)})

    with space.Ctx() as ctx:
        Cfg = type("Config", (BaseConfig,), cfg)
        results = {}
        try:
            if family == "list":
                if fmtd is None:
                    cls = make_dataclass("M", [("x", Ann, field(metadata=meta))], bases=(DataClassDictMixin,),
                                         namespace={"Config": Cfg, "__module__": ctx.modname})
                    ctx.ns["M"] = cls
                    kw = {"dialect": calld} if calld else {}
                    v_in, w_in = list(value), list(wire)
                    results["mixin"] = (cls(v_in).to_dict(**kw)["x"], cls.from_dict({"x": w_in}, **kw).x, v_in, w_in)
                if calld is None:
                    pl = make_dataclass("P", [("x", Ann, field(metadata=meta))],
                                        namespace={"Config": Cfg, "__module__": ctx.modname})
                    ctx.ns["P"] = pl
                    kw = {"default_dialect": fmtd} if fmtd else {}
                    v_in, w_in = list(value), list(wire)
                    results["codec"] = (BasicEncoder(pl, **kw).encode(pl(v_in))["x"],
                                        BasicDecoder(pl, **kw).decode({"x": w_in}).x, v_in, w_in)
            else:
                cls = make_dataclass("O", [("x", Ann, field(metadata=meta))], bases=(DataClassORJSONMixin,),
                                     namespace={"Config": Cfg, "__module__": ctx.modname})
                ctx.ns["O"] = cls
                kw = {"dialect": calld} if calld else {}
                results["orjson"] = (cls(value).to_jsonb(encoder=lambda d, **k: d, **kw)["x"],
                                     cls.from_json({"x": wire}, decoder=lambda d: d, **kw).x, value, wire)
        except Exception as e:   # noqa: BLE001
            res.cases += 1
            res.violation(f"raised|{unit}", "raised", type(e).__name__, dict(unit=unit), repr(e)[:300])
            return res
        for ep, (s, d, v_in, w_in) in results.items():
            res.cases += 2
            res.transitions += 4
            if want is None:
                if family == "list":
                    ok_s, ok_d = s == wire, d == value
                else:
                    # orjson format dialect: datetime is native on the way out, parsed on the way in
                    ok_s, ok_d = s is v_in, d == value
            elif pt:
                ok_s, ok_d = s is v_in, d is w_in
            else:
                ok_s, ok_d = s == ("S", want), d == ("D", want)
            for direction, ok, got in (("serialize", ok_s, s), ("deserialize", ok_d, d)):
                if not ok:
                    res.outcomes["neq"] += 1
                    res.violation(f"winner-neq|{unit}|{ep}|{direction}", "winner-neq", "neq",
                                  dict(unit=unit, entry=ep, direction=direction),
                                  f"want={want} form={form} got={got!r:.200}")
                else:
                    res.outcomes["ok"] += 1
                    if len(cand) >= 2:
                        res.nontrivial += 1
            if len(res.samples) < 1 and len(cand) >= 3:
                res.sample(dict(family=family, registrations=[m for _, m in cand], winner=want, form=form, entry=ep,
                                serialized=repr(s)[:60]))
    res.states += 1
    return res


def run_split(unit, res):
    """Registrations that customize one direction only: per direction, the most specific registration DEFINING it applies."""
    from mashumaro import DataClassDictMixin
    from mashumaro.codecs.basic import BasicDecoder, BasicEncoder
    from mashumaro.config import ADD_DIALECT_SUPPORT, BaseConfig
    from mashumaro.dialect import Dialect
    _, fopt, _, masks, _ = unit
    Ann = Annotated[List[int], "tag"]
    KEYS = {"alias": Ann, "exact": List[int], "origin": list}
    value, wire = [1], [1]

    def dct(marker, m):
        d = {}
        if m & 1:
            d["serialize"] = lambda v, mk=marker: ("S", mk)
        if m & 2:
            d["deserialize"] = lambda v, mk=marker: ("D", mk)
        return d
    cand = []      # (rank, marker, mask)
    meta = {}
    if fopt & 1:
        meta["serialize"] = lambda v: ("S", "fopt")
    if fopt & 2:
        meta["deserialize"] = lambda v: ("D", "fopt")
    if fopt:
        cand.append(((0, 0, 0), "fopt", fopt))
    per_level = {"calld": {}, "cfgd": {}, "cfgss": {}, "fmtd": {}}
    for sl, m in zip(SPLIT_SLOTS, masks):
        if not m:
            continue
        if sl == "fstrat":
            meta["serialization_strategy"] = dct("fstrat", m)
            cand.append(((1, 0, 0), "fstrat", m))
        else:
            lv, k = sl.split(":")
            per_level[lv][KEYS[k]] = dct(sl, m)
            cand.append(((2, KEY_ORDER.index(k), LEVELS.index(lv)), sl, m))
    want = {}
    for bit, dname in ((1, "serialize"), (2, "deserialize")):
        c = [x for x in cand if x[2] & bit]
        want[dname] = min(c)[1] if c else None
    cfg = {"code_generation_options": [ADD_DIALECT_SUPPORT]}
    calld = fmtd = None
    if per_level["calld"]:
        calld = type("CD", (Dialect,), {"serialization_strategy": per_level["calld"]})
    if per_level["cfgd"]:
        cfg["dialect"] = type("GD", (Dialect,), {"serialization_strategy": per_level["cfgd"]})
    if per_level["cfgss"]:
        cfg["serialization_strategy"] = per_level["cfgss"]
    if per_level["fmtd"]:
        fmtd = type("FD", (Dialect,), {"serialization_strategy": per_level["fmtd"]})
    with space.Ctx() as ctx:
        Cfg = type("Config", (BaseConfig,), cfg)
        results = {}
        try:
            if fmtd is None:
                cls = make_dataclass("M", [("x", Ann, field(metadata=meta))], bases=(DataClassDictMixin,),
                                     namespace={"Config": Cfg, "__module__": ctx.modname})
                ctx.ns["M"] = cls
                kw = {"dialect": calld} if calld else {}
                results["mixin"] = (cls(list(value)).to_dict(**kw)["x"], cls.from_dict({"x": list(wire)}, **kw).x)
            if calld is None:
                pl = make_dataclass("P", [("x", Ann, field(metadata=meta))], namespace={"Config": Cfg, "__module__": ctx.modname})
                ctx.ns["P"] = pl
                kw = {"default_dialect": fmtd} if fmtd else {}
                results["codec"] = (BasicEncoder(pl, **kw).encode(pl(list(value)))["x"], BasicDecoder(pl, **kw).decode({"x": list(wire)}).x)
        except Exception as e:   # noqa: BLE001
            res.cases += 1
            res.violation(f"raised|{unit}", "raised", type(e).__name__, dict(unit=unit), repr(e)[:300])
            return res
        for ep, (s_, d_) in results.items():
            res.cases += 2
            res.transitions += 4
            for direction, got, dflt, tag in (("serialize", s_, wire, "S"), ("deserialize", d_, value, "D")):
                w = want[direction]
                ok = got == dflt if w is None else got == (tag, w)
                if not ok:
                    res.outcomes["neq"] += 1
                    res.violation(f"winner-neq|{unit}|{ep}|{direction}", "winner-neq", "neq", dict(unit=unit, entry=ep, direction=direction),
                                  f"one-direction registrations {[(m, k) for _, m, k in cand]} (1=serialize 2=deserialize 3=both): "
                                  f"want={w} got={got!r:.200}")
                else:
                    res.outcomes["ok"] += 1
                    if len(cand) >= 2:
                        res.nontrivial += 1
            if len(res.samples) < 1 and len(cand) >= 3 and want["serialize"] != want["deserialize"]:
                res.sample(dict(family="split", registrations=[(m, k) for _, m, k in cand], winners=want, entry=ep, serialized=repr(s_)[:60]))
    res.states += 1
    return res


def run_annotated(unit, res):
    from mashumaro import DataClassDictMixin
    from mashumaro.codecs.basic import BasicDecoder, BasicEncoder
    from mashumaro.config import ADD_DIALECT_SUPPORT, BaseConfig
    from mashumaro.dialect import Dialect
    from mashumaro.types import SerializationStrategy
    _, slots_, kinds = unit
    Ann = Annotated[List[int], "tag"]
    KEYS = {"alias": Ann, "exact": List[int], "origin": list}

    def make(slot, kind):
        if kind == "plain":
            return {"serialize": (lambda v, m=slot: ("S", m)), "deserialize": (lambda v, m=slot: ("D", m))}

        class AS(SerializationStrategy, use_annotations=True):
            # (the value type is a tuple so that no registration of this unit, not even the one for `list`, applies to it in turn)
            def serialize(self, value: List[int]) -> typing.Tuple[str, ...]:
                return (f"S:{slot}",)

            def deserialize(self, value: typing.Tuple[str, ...]) -> List[int]:
                return ("D", slot, list(value))
        return AS()
    cand, meta = [], {}
    per_level = {"calld": {}, "cfgd": {}, "cfgss": {}, "fmtd": {}}
    for i, kind in zip(slots_, kinds):
        sl = SPLIT_SLOTS[i]
        if sl == "fstrat":
            meta["serialization_strategy"] = make(sl, kind)
            cand.append(((1, 0, 0), sl, kind))
        else:
            lv, k = sl.split(":")
            per_level[lv][KEYS[k]] = make(sl, kind)
            cand.append(((2, KEY_ORDER.index(k), LEVELS.index(lv)), sl, kind))
    _, wslot, wkind = min(cand)
    want_s = ("S", wslot) if wkind == "plain" else [f"S:{wslot}"]
    want_d = ("D", wslot) if wkind == "plain" else ("D", wslot, ["7"])     # the input [7] is first converted to Tuple[str, ...]
    cfg = {"code_generation_options": [ADD_DIALECT_SUPPORT]}
    calld = fmtd = None
    if per_level["calld"]:
        calld = type("CD", (Dialect,), {"serialization_strategy": per_level["calld"]})
    if per_level["cfgd"]:
        cfg["dialect"] = type("GD", (Dialect,), {"serialization_strategy": per_level["cfgd"]})
    if per_level["cfgss"]:
        cfg["serialization_strategy"] = per_level["cfgss"]
    if per_level["fmtd"]:
        fmtd = type("FD", (Dialect,), {"serialization_strategy": per_level["fmtd"]})
    with space.Ctx() as ctx:
        Cfg = type("Config", (BaseConfig,), cfg)
        results = {}
        try:
            if fmtd is None:
                cls = make_dataclass("M", [("x", Ann, field(metadata=meta))], bases=(DataClassDictMixin,),
                                     namespace={"Config": Cfg, "__module__": ctx.modname})
                ctx.ns["M"] = cls
                kw = {"dialect": calld} if calld else {}
                results["mixin"] = (cls([1]).to_dict(**kw)["x"], cls.from_dict({"x": [7]}, **kw).x)
            if calld is None:
                pl = make_dataclass("P", [("x", Ann, field(metadata=meta))], namespace={"Config": Cfg, "__module__": ctx.modname})
                ctx.ns["P"] = pl
                kw = {"default_dialect": fmtd} if fmtd else {}
                results["codec"] = (BasicEncoder(pl, **kw).encode(pl([1]))["x"], BasicDecoder(pl, **kw).decode({"x": [7]}).x)
        except RecursionError:
            res.cases += 1
            res.violation(f"raised|{unit}", "raised", "RecursionError", dict(unit=unit),
                          f"class creation recursed: registrations {[(sl, kd) for _, sl, kd in cand]}")
            return res
        except Exception as e:   # noqa: BLE001
            res.cases += 1
            res.violation(f"raised|{unit}", "raised", type(e).__name__, dict(unit=unit), repr(e)[:300])
            return res
        for ep, (s_, d_) in results.items():
            res.cases += 2
            res.transitions += 4
            for direction, got, want_ in (("serialize", s_, want_s), ("deserialize", d_, want_d)):
                if got != want_:
                    res.outcomes["neq"] += 1
                    res.violation(f"winner-neq|{unit}|{ep}|{direction}", "winner-neq", "neq", dict(unit=unit, entry=ep, direction=direction),
                                  f"registrations {[(sl, kd) for _, sl, kd in cand]}: want={want_!r} got={got!r:.200}")
                else:
                    res.outcomes["ok"] += 1
                    res.nontrivial += 1
        res.sample(dict(family="annotated", registrations=[(sl, kd) for _, sl, kd in cand], winner=wslot), cap=1)
    res.states += 1
    return res


def run_composite(unit, res):
    """Field x: Tuple[Stamp, Plain, date] (or date first). Stamp (NamedTuple(day: date, n: int)) is registered with an engine NAME at level l1,
    date with a marker function at level l2, Plain (NamedTuple(a: int)) nowhere: every type is rendered by ITS OWN registration."""
    import collections
    from mashumaro import DataClassDictMixin
    from mashumaro.codecs.basic import BasicDecoder, BasicEncoder
    from mashumaro.config import ADD_DIALECT_SUPPORT, BaseConfig
    from mashumaro.dialect import Dialect
    _, engine, l1, l2, order = unit
    date = datetime.date
    with space.Ctx() as ctx:
        ctx.ns["_date"] = date
        ctx.run("class Stamp(NamedTuple):\n    day: _date\n    n: int\nclass Plain(NamedTuple):\n    a: int\n")
        Stamp, Plain = ctx.ns["Stamp"], ctx.ns["Plain"]
        per_level = collections.defaultdict(dict)
        if engine:
            per_level[l1][Stamp] = {"serialize": engine, "deserialize": engine}
        if l2:
            per_level[l2][date] = {"serialize": (lambda v: "S:" + v.isoformat()), "deserialize": (lambda s: date.fromisoformat(s[2:]))}
        cfg = {"code_generation_options": [ADD_DIALECT_SUPPORT]}
        calld = fmtd = None
        if per_level["calld"]:
            calld = type("CD", (Dialect,), {"serialization_strategy": per_level["calld"]})
        if per_level["cfgd"]:
            cfg["dialect"] = type("GD", (Dialect,), {"serialization_strategy": per_level["cfgd"]})
        if per_level["cfgss"]:
            cfg["serialization_strategy"] = per_level["cfgss"]
        if per_level["fmtd"]:
            fmtd = type("FD", (Dialect,), {"serialization_strategy": per_level["fmtd"]})
        T = typing.Tuple[Stamp, Plain, date] if order == "stamp-first" else typing.Tuple[date, Plain, Stamp]
        d0, d1 = date(2020, 1, 2), date(2021, 6, 7)
        pd = (lambda v: "S:" + v.isoformat()) if l2 else (lambda v: v.isoformat())
        stamp_w = {"as_dict": {"day": pd(d0), "n": 3}, "as_list": [pd(d0), 3], None: [pd(d0), 3]}[engine]
        value = (Stamp(d0, 3), Plain(1), d1) if order == "stamp-first" else (d1, Plain(1), Stamp(d0, 3))
        wire = [stamp_w, [1], pd(d1)] if order == "stamp-first" else [pd(d1), [1], stamp_w]
        Cfg = type("Config", (BaseConfig,), cfg)
        results = {}
        try:
            if fmtd is None:
                cls = make_dataclass("M", [("x", T), ("y", date, field(default=d1))], bases=(DataClassDictMixin,),
                                     namespace={"Config": Cfg, "__module__": ctx.modname})
                ctx.ns["M"] = cls
                kw = {"dialect": calld} if calld else {}
                out = cls(value).to_dict(**kw)
                back = cls.from_dict({"x": wire, "y": pd(d1)}, **kw)
                results["mixin"] = ((out["x"], out["y"]), (back.x, back.y))
            if calld is None:
                pl = make_dataclass("P", [("x", T), ("y", date, field(default=d1))], namespace={"Config": Cfg, "__module__": ctx.modname})
                ctx.ns["P"] = pl
                kw = {"default_dialect": fmtd} if fmtd else {}
                out = BasicEncoder(pl, **kw).encode(pl(value))
                back = BasicDecoder(pl, **kw).decode({"x": wire, "y": pd(d1)})
                results["codec"] = ((out["x"], out["y"]), (back.x, back.y))
        except Exception as e:   # noqa: BLE001
            res.cases += 1
            res.violation(f"raised|{unit}", "raised", type(e).__name__, dict(unit=unit), repr(e)[:300])
            return res
        for ep, (s_, d_) in results.items():
            res.cases += 2
            res.transitions += 4
            for direction, got, want_ in (("serialize", s_, (wire, pd(d1))), ("deserialize", d_, (value, d1))):
                if got != want_ or (direction == "deserialize" and [type(v) for v in got[0]] != [type(v) for v in value]):
                    res.outcomes["neq"] += 1
                    res.violation(f"winner-neq|{unit}|{ep}|{direction}", "winner-neq", "neq", dict(unit=unit, entry=ep, direction=direction),
                                  f"engine {engine!r} for the named tuple at {l1}, date marker at {l2}: want={want_!r:.200} got={got!r:.200}")
                else:
                    res.outcomes["ok"] += 1
                    res.nontrivial += 1
        res.sample(dict(family="composite", engine=engine, levels=(l1, l2), order=order), cap=1)
    res.states += 1
    return res


def replay(case):
    u = core.detuple(case["unit"])
    if u[0] == "composite":
        return run_composite(tuple(u), core.UnitResult()).violations
    if u[0] == "annotated":
        return run_annotated((u[0], tuple(u[1]), tuple(u[2])), core.UnitResult()).violations
    if u[0] == "split":
        return run_split((u[0], u[1], u[2], tuple(u[3]), u[4]), core.UnitResult()).violations
    unit = (u[0], u[1], u[2], tuple(None if k is None else tuple(k) for k in u[3]), u[4])
    return run_unit(unit).violations
