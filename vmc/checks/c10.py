"""C10 — The most specific customization wins (engine E1, customization lattice)."""
import datetime
import itertools
from dataclasses import field, make_dataclass
from typing import Annotated, List

from vmc import core, space

PROPERTY = "C10"
ENGINE = "E1 schema-space"
RULE = ("every subset of the six customization levels x every non-empty subset of the three type keys per key-bearing level x strategy "
        "form (dict / SerializationStrategy / pass_through at the winner) x entry point (mixin with call dialect, Basic codec with "
        "default_dialect, orjson mixin over the format dialect) x direction: each registration writes a distinct marker and the marker "
        "observed must be the lexicographic minimum under (field options, key specificity, level). Non-trivial: at least two "
        "registrations compete.")
ASSUMPTIONS = ["one field annotated Annotated[List[int], 'tag'] (keys: alias / exact List[int] / origin list); orjson family uses datetime"]
UNIT_TIMEOUT = 600
CHUNK = 32

KEY_ORDER = ["alias", "exact", "origin"]
LEVELS = ["fopt", "fstrat", "calld", "cfgd", "cfgss", "fmtd"]
KEYSETS = [ks for r in (1, 2, 3) for ks in itertools.combinations(KEY_ORDER, r)]
FORMS = ["dict", "strategy", "pass_through"]
SPLIT_SLOTS = ["fstrat", "calld:exact", "cfgd:alias", "cfgd:exact", "cfgss:exact", "cfgss:origin", "fmtd:exact", "fmtd:alias"]


def bounds(tier):
    return dict(tier=tier, levels=LEVELS, keys=KEY_ORDER, keysets=len(KEYSETS), forms=FORMS,
                one_direction_slots=SPLIT_SLOTS if tier == "thorough" else SPLIT_SLOTS[:7], entry_points=["mixin(+call dialect)", "basic codec(+default_dialect)", "orjson mixin"], directions=2)


def units(tier):
    out = []
    for fopt, fstrat in itertools.product((0, 1), repeat=2):
        for ks4 in itertools.product([None] + KEYSETS, repeat=4):
            if ks4[0] and ks4[3]:
                continue    # no entry point takes both a call dialect and a codec default_dialect
            for form in FORMS:
                out.append(("list", fopt, fstrat, ks4, form))
    # one-direction dict registrations: every slot is absent, serialize-only, deserialize-only or both
    slots = SPLIT_SLOTS if tier == "thorough" else SPLIT_SLOTS[:7]
    for fopt in ((0, 1, 2, 3) if tier == "thorough" else (0,)):
        for masks in itertools.product((0, 1, 2, 3), repeat=len(slots)):
            present = {sl.split(":")[0] for sl, m in zip(slots, masks) if m}
            if "calld" in present and "fmtd" in present:
                continue
            out.append(("split", fopt, 0, masks, "dict"))
    okeys = [None, ("alias",), ("exact",), ("alias", "exact")]
    for fopt, fstrat in itertools.product((0, 1), repeat=2):
        for ks3 in itertools.product(okeys, repeat=3):
            for form in FORMS:
                out.append(("orjson", fopt, fstrat, ks3 + (None,), form))
    return out


def run_unit(unit, only=None):
    from mashumaro import DataClassDictMixin, pass_through
    from mashumaro.codecs.basic import BasicDecoder, BasicEncoder
    from mashumaro.config import ADD_DIALECT_SUPPORT, BaseConfig
    from mashumaro.dialect import Dialect
    from mashumaro.mixins.orjson import DataClassORJSONMixin
    from mashumaro.types import SerializationStrategy

    family, fopt, fstrat, ks4, form = unit
    res = core.UnitResult()
    if family == "split":
        return run_split(unit, res)

    class Strat(SerializationStrategy):
        def __init__(self, m):
            self.m = m

        def serialize(self, v):
            return ("S", self.m)

        def deserialize(self, v):
            return ("D", self.m)

    if family == "list":
        Ann = Annotated[List[int], "tag"]
        KEYS = {"alias": Ann, "exact": List[int], "origin": list}
        value, wire = [1], [1]
    else:
        Ann = Annotated[datetime.datetime, "tag"]
        KEYS = {"alias": Ann, "exact": datetime.datetime}
        value, wire = datetime.datetime(2020, 1, 2, 3, 4, 5), "2020-01-02T03:04:05"

    cand = []
    if fopt:
        cand.append(((0, 0, 0), "fopt"))
    if fstrat:
        cand.append(((1, 0, 0), "fstrat"))
    for li, (lname, ks) in enumerate(zip(LEVELS[2:], ks4), start=2):
        for k in ks or ():
            cand.append(((2, KEY_ORDER.index(k), li), f"{lname}:{k}"))
    want = min(cand)[1] if cand else None
    pt = form == "pass_through"

    def registration(marker):
        if pt and marker == want:
            return pass_through
        if form == "strategy":
            return Strat(marker)
        return {"serialize": (lambda v, m=marker: ("S", m)), "deserialize": (lambda v, m=marker: ("D", m))}

    def reg(level, ks):
        return {KEYS[k]: registration(f"{level}:{k}") for k in ks}

    meta = {}
    if fopt:
        if pt and want == "fopt":
            meta["serialize"] = pass_through
            meta["deserialize"] = pass_through
        else:
            meta["serialize"] = lambda v: ("S", "fopt")
            meta["deserialize"] = lambda v: ("D", "fopt")
    if fstrat:
        meta["serialization_strategy"] = registration("fstrat")
    cfg = {"code_generation_options": [ADD_DIALECT_SUPPORT]}
    calld = fmtd = None
    ks_calld, ks_cfgd, ks_cfgss, ks_fmtd = ks4
    if ks_calld:
        calld = type("CD", (Dialect,), {"serialization_strategy": reg("calld", ks_calld)})
    if ks_cfgd:
        cfg["dialect"] = type("GD", (Dialect,), {"serialization_strategy": reg("cfgd", ks_cfgd)})
    if ks_cfgss:
        cfg["serialization_strategy"] = reg("cfgss", ks_cfgss)
    if ks_fmtd:
        fmtd = type("FD", (Dialect,), {"serialization_strategy": reg("fmtd", ks_fmtd)})

    with space.Ctx() as ctx:
        Cfg = type("Config", (BaseConfig,), cfg)
        results = {}
        try:
            if family == "list":
                if fmtd is None:
                    cls = make_dataclass("M", [("x", Ann, field(metadata=meta))], bases=(DataClassDictMixin,),
                                         namespace={"Config": Cfg, "__module__": ctx.modname})
                    ctx.ns["M"] = cls
                    kw = {"dialect": calld} if calld else {}
                    v_in, w_in = list(value), list(wire)
                    results["mixin"] = (cls(v_in).to_dict(**kw)["x"], cls.from_dict({"x": w_in}, **kw).x, v_in, w_in)
                if calld is None:
                    pl = make_dataclass("P", [("x", Ann, field(metadata=meta))],
                                        namespace={"Config": Cfg, "__module__": ctx.modname})
                    ctx.ns["P"] = pl
                    kw = {"default_dialect": fmtd} if fmtd else {}
                    v_in, w_in = list(value), list(wire)
                    results["codec"] = (BasicEncoder(pl, **kw).encode(pl(v_in))["x"],
                                        BasicDecoder(pl, **kw).decode({"x": w_in}).x, v_in, w_in)
            else:
                cls = make_dataclass("O", [("x", Ann, field(metadata=meta))], bases=(DataClassORJSONMixin,),
                                     namespace={"Config": Cfg, "__module__": ctx.modname})
                ctx.ns["O"] = cls
                kw = {"dialect": calld} if calld else {}
                results["orjson"] = (cls(value).to_jsonb(encoder=lambda d, **k: d, **kw)["x"],
                                     cls.from_json({"x": wire}, decoder=lambda d: d, **kw).x, value, wire)
        except Exception as e:   # noqa: BLE001
            res.cases += 1
            res.violation(f"raised|{unit}", "raised", type(e).__name__, dict(unit=unit), repr(e)[:300])
            return res
        for ep, (s, d, v_in, w_in) in results.items():
            res.cases += 2
            res.transitions += 4
            if want is None:
                if family == "list":
                    ok_s, ok_d = s == wire, d == value
                else:
                    # orjson format dialect: datetime is native on the way out, parsed on the way in
                    ok_s, ok_d = s is v_in, d == value
            elif pt:
                ok_s, ok_d = s is v_in, d is w_in
            else:
                ok_s, ok_d = s == ("S", want), d == ("D", want)
            for direction, ok, got in (("serialize", ok_s, s), ("deserialize", ok_d, d)):
                if not ok:
                    res.outcomes["neq"] += 1
                    res.violation(f"winner-neq|{unit}|{ep}|{direction}", "winner-neq", "neq",
                                  dict(unit=unit, entry=ep, direction=direction),
                                  f"want={want} form={form} got={got!r:.200}")
                else:
                    res.outcomes["ok"] += 1
                    if len(cand) >= 2:
                        res.nontrivial += 1
            if len(res.samples) < 1 and len(cand) >= 3:
                res.sample(dict(family=family, registrations=[m for _, m in cand], winner=want, form=form, entry=ep,
                                serialized=repr(s)[:60]))
    res.states += 1
    return res


def run_split(unit, res):
    """Registrations that customize one direction only: per direction, the most specific registration DEFINING it applies."""
    from mashumaro import DataClassDictMixin
    from mashumaro.codecs.basic import BasicDecoder, BasicEncoder
    from mashumaro.config import ADD_DIALECT_SUPPORT, BaseConfig
    from mashumaro.dialect import Dialect
    _, fopt, _, masks, _ = unit
    Ann = Annotated[List[int], "tag"]
    KEYS = {"alias": Ann, "exact": List[int], "origin": list}
    value, wire = [1], [1]

    def dct(marker, m):
        d = {}
        if m & 1:
            d["serialize"] = lambda v, mk=marker: ("S", mk)
        if m & 2:
            d["deserialize"] = lambda v, mk=marker: ("D", mk)
        return d
    cand = []      # (rank, marker, mask)
    meta = {}
    if fopt & 1:
        meta["serialize"] = lambda v: ("S", "fopt")
    if fopt & 2:
        meta["deserialize"] = lambda v: ("D", "fopt")
    if fopt:
        cand.append(((0, 0, 0), "fopt", fopt))
    per_level = {"calld": {}, "cfgd": {}, "cfgss": {}, "fmtd": {}}
    for sl, m in zip(SPLIT_SLOTS, masks):
        if not m:
            continue
        if sl == "fstrat":
            meta["serialization_strategy"] = dct("fstrat", m)
            cand.append(((1, 0, 0), "fstrat", m))
        else:
            lv, k = sl.split(":")
            per_level[lv][KEYS[k]] = dct(sl, m)
            cand.append(((2, KEY_ORDER.index(k), LEVELS.index(lv)), sl, m))
    want = {}
    for bit, dname in ((1, "serialize"), (2, "deserialize")):
        c = [x for x in cand if x[2] & bit]
        want[dname] = min(c)[1] if c else None
    cfg = {"code_generation_options": [ADD_DIALECT_SUPPORT]}
    calld = fmtd = None
    if per_level["calld"]:
        calld = type("CD", (Dialect,), {"serialization_strategy": per_level["calld"]})
    if per_level["cfgd"]:
        cfg["dialect"] = type("GD", (Dialect,), {"serialization_strategy": per_level["cfgd"]})
    if per_level["cfgss"]:
        cfg["serialization_strategy"] = per_level["cfgss"]
    if per_level["fmtd"]:
        fmtd = type("FD", (Dialect,), {"serialization_strategy": per_level["fmtd"]})
    with space.Ctx() as ctx:
        Cfg = type("Config", (BaseConfig,), cfg)
        results = {}
        try:
            if fmtd is None:
                cls = make_dataclass("M", [("x", Ann, field(metadata=meta))], bases=(DataClassDictMixin,),
                                     namespace={"Config": Cfg, "__module__": ctx.modname})
                ctx.ns["M"] = cls
                kw = {"dialect": calld} if calld else {}
                results["mixin"] = (cls(list(value)).to_dict(**kw)["x"], cls.from_dict({"x": list(wire)}, **kw).x)
            if calld is None:
                pl = make_dataclass("P", [("x", Ann, field(metadata=meta))], namespace={"Config": Cfg, "__module__": ctx.modname})
                ctx.ns["P"] = pl
                kw = {"default_dialect": fmtd} if fmtd else {}
                results["codec"] = (BasicEncoder(pl, **kw).encode(pl(list(value)))["x"], BasicDecoder(pl, **kw).decode({"x": list(wire)}).x)
        except Exception as e:   # noqa: BLE001
            res.cases += 1
            res.violation(f"raised|{unit}", "raised", type(e).__name__, dict(unit=unit), repr(e)[:300])
            return res
        for ep, (s_, d_) in results.items():
            res.cases += 2
            res.transitions += 4
            for direction, got, dflt, tag in (("serialize", s_, wire, "S"), ("deserialize", d_, value, "D")):
                w = want[direction]
                ok = got == dflt if w is None else got == (tag, w)
                if not ok:
                    res.outcomes["neq"] += 1
                    res.violation(f"winner-neq|{unit}|{ep}|{direction}", "winner-neq", "neq", dict(unit=unit, entry=ep, direction=direction),
                                  f"one-direction registrations {[(m, k) for _, m, k in cand]} (1=serialize 2=deserialize 3=both): "
                                  f"want={w} got={got!r:.200}")
                else:
                    res.outcomes["ok"] += 1
                    if len(cand) >= 2:
                        res.nontrivial += 1
            if len(res.samples) < 1 and len(cand) >= 3 and want["serialize"] != want["deserialize"]:
                res.sample(dict(family="split", registrations=[(m, k) for _, m, k in cand], winners=want, entry=ep, serialized=repr(s_)[:60]))
    res.states += 1
    return res


def replay(case):
    u = core.detuple(case["unit"])
    if u[0] == "split":
        return run_split((u[0], u[1], u[2], tuple(u[3]), u[4]), core.UnitResult()).violations
    unit = (u[0], u[1], u[2], tuple(None if k is None else tuple(k) for k in u[3]), u[4])
    return run_unit(unit).violations
