"""C01 — Basic-form round trip is the identity (engine E1, DESIGN.md 6/C01)."""
from __future__ import annotations

from vmc import core, e1, ref, space

PROPERTY = "C01"
ENGINE = "E1 schema-space"
RULE = ("every (schema, class configuration, materialisation mode, entry point, value) tuple of the bounded grammar "
        "is executed: decode(encode(v)) must be `same` as v (equal and same concrete classes at every node). "
        "A case is non-trivial when the encoded form differs structurally from the value (a conversion happened); "
        "distinct = distinct (schema, config, entry point, value index).")
ASSUMPTIONS = [
    "CPython 3.12.1 with the pinned third-party libraries only",
    "values outside the per-leaf domains of vmc/space.py are not explored (NaN, regex flags, named or sub-minute "
    "timezones, timedeltas beyond 2^53 us are excluded by construction: the property lists them as lossy)",
    "a union value is in scope only when the reference reading of union resolution (DESIGN.md 4.1) maps its own "
    "encoding back to it; other union values are 'members share a wire form' and are counted as skipped",
    "key-dropping options (omit_none, omit_default, serialize='omit') are excluded as the property says",
    "nesting depth is bounded (see bounds)",
]
UNIT_TIMEOUT = 300
CHUNK = 8

CONFIGS = {
    "default": dict(),
    "alias_meta": dict(alias="meta", config={"serialize_by_alias": "True"}),
    "alias_config": dict(alias="config", config={"serialize_by_alias": "True"}),
    "alias_annotated": dict(alias="annotated", config={"serialize_by_alias": "True"}),
    "alias_noser": dict(alias="meta", config={"allow_deserialization_not_by_alias": "True"}),
    "nt_as_dict": dict(config={"namedtuple_as_dict": "True"}),
    "sort_keys": dict(config={"sort_keys": "True"}),
    "lazy": dict(config={"lazy_compilation": "True"}),
    "forbid_extra": dict(config={"forbid_extra_keys": "True"}),
    "flags": dict(config={"code_generation_options":
                          "[TO_DICT_ADD_OMIT_NONE_FLAG, TO_DICT_ADD_BY_ALIAS_FLAG, ADD_DIALECT_SUPPORT, "
                          "ADD_SERIALIZATION_CONTEXT]"}),
    "nocopy": dict(config={"dialect": "_NoCopyDialect"}),
}
CLASSY = {"dc", "nt", "ntf", "td", "dcgen", "dcgeninh", "dcinh", "dcself", "dcselft", "dcfwd", "dcmut", "dcselfg"}


def bounds(tier):
    return dict(tier=tier, schemas=len(space.schemas(tier)), configs=sorted(CONFIGS),
                entry_points=["codec", "mixin", "nested"], modes=["module", "local"],
                full_alphabet_depth=1 if tier == "quick" else 2, representative_depth=3 if tier == "quick" else 4,
                leaves=len(space.ALL_LEAVES), representative_leaves=list(space.REP_LEAVES),
                value_product_cap=24)


# inheritance from generic bases: (pattern name, source; the last class is the one instantiated, `v` builds a value)
GENERIC_INHERITANCE = {
    "same-order": ("@dataclass\nclass GB(DataClassDictMixin, Generic[GU, GV]):\n    u: GU\n    v: List[GV]\n"
                   "@dataclass\nclass GM(GB[GU, GV], Generic[GU, GV]):\n    m: Optional[GU] = None\n"
                   "@dataclass\nclass GL(GM[int, date]):\n    pass\n", "GL(1, [date(2020, 1, 2)], 3)"),
    "partially-specialised": ("@dataclass\nclass GB(DataClassDictMixin, Generic[GU, GV]):\n    u: GU\n    v: List[GV]\n"
                              "@dataclass\nclass GM(GB[date, GV], Generic[GV]):\n    m: Optional[GV] = None\n"
                              "@dataclass\nclass GL(GM[int]):\n    pass\n", "GL(date(2020, 1, 2), [1], 3)"),
    "nested-then-alone": ("@dataclass\nclass GB(DataClassDictMixin, Generic[GU, GV]):\n    item: Tuple[Optional[GU], GV]\n    plain: Dict[GU, GV]\n"
                          "@dataclass\nclass GL(GB[int, float]):\n    pass\n", "GL((1, 2.5), {3: 4.5})"),
    "base-of-nested-arg": ("@dataclass\nclass GB(DataClassDictMixin, Generic[GU, GV]):\n    first: GU\n    second: GV\n"
                           "@dataclass\nclass GM(GB[List[GU], GV], Generic[GU, GV]):\n    pass\n"
                           "@dataclass\nclass GL(GM[int, float]):\n    pass\n", "GL([1, 2], 2.5)"),
    "swapped-order": ("@dataclass\nclass GB(DataClassDictMixin, Generic[GU, GV]):\n    u: GU\n    v: GV\n"
                      "@dataclass\nclass GM(GB[GU, GV], Generic[GV, GU]):\n    pass\n"
                      "@dataclass\nclass GL(GM[int, date]):\n    pass\n", "GL(u=date(2020, 1, 2), v=1)"),
    "swapped-order-own-field": ("@dataclass\nclass GB(DataClassDictMixin, Generic[GU, GV]):\n    u: GU\n    v: GV\n"
                                "@dataclass\nclass GM(GB[GU, GV], Generic[GV, GU]):\n    m: Optional[List[GV]] = None\n"
                                "@dataclass\nclass GL(GM[date, int]):\n    pass\n", "GL(u=1, v=date(2020, 1, 2), m=[date(2021, 3, 4)])"),
    "typevar-reused": ("@dataclass\nclass GB(DataClassDictMixin, Generic[GU]):\n    a: GU\n"
                       "@dataclass\nclass GM(GB[Optional[GU]], Generic[GU]):\n    pass\n"
                       "@dataclass\nclass GL(GM[date]):\n    pass\n", "GL(date(2020, 1, 2))"),
    "arg-mentions-param-twice": ("@dataclass\nclass GB(DataClassDictMixin, Generic[GU, GV]):\n    a: GU\n    b: GV\n"
                                 "@dataclass\nclass GM(GB[List[GV], GV], Generic[GV]):\n    pass\n"
                                 "@dataclass\nclass GL(GM[date]):\n    pass\n", "GL([date(2020, 1, 2)], date(2021, 3, 4))"),
}


def run_geninh(unit):
    import datetime
    _, pattern, _ = unit
    res = core.UnitResult()
    src, mk = GENERIC_INHERITANCE[pattern]
    facts = dict(generic_inheritance=pattern)
    with space.Ctx() as ctx:
        import typing
        ctx.ns.update(GU=typing.TypeVar("GU"), GV=typing.TypeVar("GV"), date=datetime.date, Tuple=typing.Tuple)
        res.cases += 1
        res.transitions += 2
        try:
            ctx.run(src)
            v = eval(mk, ctx.ns)
            enc = v.to_dict()
            back = type(v).from_dict(enc)
        except RecursionError:
            res.violation(f"build-failed|geninh|{pattern}", "build-failed", "RecursionError",
                          dict(desc=("geninh", pattern), config="default", mode="module", entry="mixin", value_index=0, facts=facts), "RecursionError")
            return res
        except Exception as e:   # noqa: BLE001
            res.violation(f"encode-raised|geninh|{pattern}", "encode-raised", e1.exc_class(e),
                          dict(desc=("geninh", pattern), config="default", mode="module", entry="mixin", value_index=0, facts=facts), repr(e)[:300])
            return res
        import json
        try:
            json.dumps(enc)
            basic = True
        except TypeError:
            basic = False
        if back != v or not basic or not ref.same(back, v):
            res.violation(f"roundtrip-neq|geninh|{pattern}", "roundtrip-neq", "neq",
                          dict(desc=("geninh", pattern), config="default", mode="module", entry="mixin", value_index=0, facts=facts),
                          f"value={v!r} enc={enc!r} back={back!r}")
        else:
            res.outcomes["ok"] += 1
            res.nontrivial += 1
    res.states += 1
    return res


def units(tier):
    out = [(("geninh", p), "default", "module") for p in GENERIC_INHERITANCE]
    for d in space.schemas(tier):
        out.append((d, "default", "module"))
        if space.has_kind(d, CLASSY) and space.depth(d) <= 2:
            dcish = space.has_kind(d, {"dc"})
            for c in CONFIGS:
                if c == "default":
                    continue
                if c.startswith("alias") or c in ("sort_keys", "lazy", "forbid_extra", "flags"):
                    if not dcish and not space.has_kind(d, {"dcgen", "dcgeninh", "dcinh", "dcself", "dcselft", "dcfwd", "dcmut", "dcselfg"}):
                        continue
                if c.startswith("alias") and not dcish:
                    continue
                if c == "nt_as_dict" and not space.has_kind(d, {"nt", "ntf"}):
                    continue
                out.append((d, c, "module"))
            if space.depth(d) <= 1 or tier == "thorough":
                out.append((d, "default", "local"))
    return out


def _nocopy_dialect():
    from mashumaro.dialect import Dialect
    import collections

    class _NoCopyDialect(Dialect):
        no_copy_collections = (list, dict, set, collections.deque, collections.OrderedDict)
    return _NoCopyDialect


def run_case(unit, res=None, want_violations=None):
    """Executes every value of the unit through every entry point."""
    d, cfgname, mode = unit
    if d[0] == "geninh":
        return run_geninh((d[0], d[1], None))
    cfg = dict(CONFIGS[cfgname])
    viol = []
    res = res or core.UnitResult()

    def V(clause, out, ep, idx, detail):
        viol.append(dict(sig=f"{clause}|{_sigdesc(d)}|{cfgname}|{ep}|{out}", clause=clause, outcome=out,
                         case=dict(desc=d, config=cfgname, mode=mode, entry=ep, value_index=idx), detail=detail))

    with space.Ctx(mode=mode, dc=cfg) as ctx:
        ctx.ns["_NoCopyDialect"] = _nocopy_dialect()
        try:
            h = space.hint(d, ctx)
            vals = space.values(d, ctx)
        except Exception as e:
            V("build-failed", e1.exc_class(e), "hint", -1, f"{type(e).__name__}: {e}")
            res.violations.extend(viol)
            res.cases += 1
            res.outcomes["build-failed:" + e1.exc_class(e)] += 1
            return res
        o = ref.opts(namedtuple_as_dict=cfgname == "nt_as_dict",
                     by_alias=cfgname in ("alias_meta", "alias_config", "alias_annotated"))
        dd = None
        if cfgname == "nt_as_dict":
            from mashumaro.dialect import Dialect

            class dd(Dialect):
                namedtuple_as_dict = True
        elif cfgname == "nocopy":
            dd = ctx.ns["_NoCopyDialect"]
        holder_cfg = dict(cfg.get("config", {}))
        holder_cfg.pop("aliases", None)
        for ep in ("codec", "mixin", "nested"):
            r = e1.outcome(e1.EntryPoints, ep, h, ctx, default_dialect=dd, holder_config=holder_cfg)
            res.transitions += 1
            if r[0] == "exc":
                V("build-failed", e1.exc_class(r[1]), ep, -1, f"{type(r[1]).__name__}: {r[1]}")
                res.cases += 1
                res.outcomes["build-failed:" + e1.exc_class(r[1])] += 1
                continue
            E = r[1]
            for idx, v in enumerate(vals):
                res.cases += 1
                # reference reading decides whether a union value is inside the lossless subset
                if space.has_kind(d, {"union", "pep604", "tvconstr"}):
                    try:
                        rv = ref.decode(d, ref.encode(d, v, ctx, o), ctx, o)
                        lossless = ref.same(rv, v)
                    except (ref.Reject, ref.Unspecified):
                        lossless = False
                    if not lossless:
                        res.counters["skipped_union_shared_wire_form"] += 1
                        res.outcomes["skipped"] += 1
                        continue
                r1 = e1.outcome(E.encode, v)
                res.transitions += 1
                if r1[0] == "exc":
                    V("encode-raised", e1.exc_class(r1[1]), ep, idx, f"{r1[1]!r:.300} value={v!r:.200}")
                    res.outcomes["encode-raised:" + e1.exc_class(r1[1])] += 1
                    continue
                enc = r1[1]
                if ep == "nested":
                    _, a, b = enc
                    if not ref.same(a, b):
                        V("nested-paths-differ", "neq", ep, idx, f"{a!r:.200} vs {b!r:.200}")
                        continue
                    enc = a
                r2 = e1.outcome(E.decode, enc)
                res.transitions += 1
                if r2[0] == "exc":
                    V("decode-raised", e1.exc_class(r2[1]), ep, idx,
                      f"{r2[1]!r:.300} value={v!r:.200} enc={enc!r:.200}")
                    res.outcomes["decode-raised:" + e1.exc_class(r2[1])] += 1
                    continue
                back = r2[1]
                if ep == "nested":
                    _, a, b = back
                    if not ref.same(a, b):
                        V("nested-paths-differ", "neq", ep, idx, f"{a!r:.200} vs {b!r:.200}")
                        continue
                    back = a
                if not ref.same(back, v, dict_order=False):
                    V("roundtrip-neq", "neq", ep, idx, f"value={v!r:.250} enc={enc!r:.250} back={back!r:.250}")
                    res.outcomes["roundtrip-neq"] += 1
                    continue
                res.outcomes["ok"] += 1
                if not ref.same(enc, v):
                    res.nontrivial += 1
                if idx == 1 and ep == "codec":
                    res.sample(dict(schema=space.show(d), config=cfgname, mode=mode, value=repr(v)[:120],
                                    encoded=repr(enc)[:120]), cap=1)
    res.states += 1
    res.violations.extend(viol)
    return res


def _sigdesc(d):
    """Signature component: constructor skeleton with the leaf names that matter."""
    return space.show(d)


def run_unit(unit):
    return run_case(unit)


def replay(case):
    unit = (core.detuple(case["desc"]), case["config"], case["mode"])
    res = run_case(unit)
    return [v for v in res.violations
            if v["case"]["entry"] == case["entry"] and v["case"]["value_index"] == case["value_index"]]
