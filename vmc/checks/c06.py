"""C06 — Generated JSON Schema accepts everything the serializer produces (engine E1 + jsonschema validator)."""
from __future__ import annotations

import json
import os
import warnings

from vmc import core, e1, ref, space

PROPERTY = "C06"
ENGINE = "E1 schema-space"
RULE = ("every schema of the bounded grammar for which schema building is supported, bare and wrapped in a dataclass (with an Optional "
        "twin field and the three alias sources) x {DRAFT_2020_12, OPEN_API_3_1} x all_refs {False, True} x every value: the JSON round "
        "trip of the default serialization (by alias where aliases exist) must validate under jsonschema.Draft202012Validator; `required` "
        "must list exactly the fields without default; distinct classes / generic specialisations must not share a definition name. "
        "Non-trivial: the instance is not a bare scalar (has structure to validate).")
ASSUMPTIONS = ["standard validator = jsonschema 4.26 Draft202012Validator without format assertion",
               "for OPEN_API_3_1 the definitions are made resolvable as #/components/schemas/<name>"]
UNIT_TIMEOUT = 900
RECLIMIT = 300      # a self-referencing schema recurses to the limit (open finding); a low limit keeps those cases cheap
CHUNK = 8
UNSUPPORTED_LEAVES = {"pattern", "sertype"}


def bounds(tier):
    return dict(tier=tier, schemas=len(_schemas(tier)), dialects=["DRAFT_2020_12", "OPEN_API_3_1"], all_refs=[False, True],
                targets=["bare", "dataclass field", "dataclass field under an owner Config whose serialization_strategy turns int into text", "aliased dataclass (metadata / Config.aliases / both / Annotated Alias)", "init=False field", "tuples with a fixed-length or variadic unpacked part, nested one level (252 types)", "every jsonschema annotation class on a fitting type x 7 positions (bare, field, defaulted field, Optional field, NamedTuple / TypedDict member, list element)"], max_depth=1 if tier == "quick" else 2,
                wrapped_values="spread of 10 (aliased: 4) in quick, full product in thorough",
                quick_combinations="bare class-free schemas: 1 (definitions cannot occur); wrapped: DRAFT/inline + OPENAPI/all_refs; aliased: OPENAPI/all_refs")


def _schemas(tier):
    maxd = 1 if tier == "quick" else 2
    out = [d for d in space.schemas(tier) if space.depth(d) <= maxd]
    if tier == "quick":
        out += [d for d in space.schemas(tier) if space.depth(d) == 2][::20]
    return [d for d in out if not (set(space.leaves_of(d)) & UNSUPPORTED_LEAVES)]


def units(tier):
    out = []
    QUICK[0] = tier == "quick"
    os.environ["VMC_TIER_C06"] = tier       # inherited by the forked workers
    for d in _schemas(tier):
        out.append((d, "bare"))
        out.append((d, "wrapped"))
        if space.depth(d) <= 1 and (tier == "thorough" or d[0] == "leaf" or sum(map(ord, space.show(d))) % 4 == 0):
            for a in ("alias_meta", "alias_config", "alias_both", "alias_annotated"):
                out.append((d, a))
        if space.depth(d) <= 1 and ("int" in set(space.leaves_of(d)) or d[0] == "counter"):
            # the owner's Config turns every int into text: the schema must follow the serializer wherever an int is written
            out.append((d, "strategy"))
    out += [(None, "generic_specialisations"), (None, "same_name_classes"), (None, "init_false_field"), (None, "fixed_unpacked_tuple")]
    out += [(None, "constraints", t) for t in CONSTRAINT_TARGETS]
    out += [(None, "forward_refs")]
    out += [(None, "literal_mixed", i) for i in range(len(LIT_ALPHABET))]
    return out


def _lit_alphabet():
    from vmc import tmod
    return [True, False, 0, 1, 2, "1", "a", None, b"x", tmod.ES.A, tmod.EI.ONE, tmod.IE.X]


LIT_ALPHABET = list(range(12))      # indices into _lit_alphabet()


def run_literal_mixed(unit, res):
    """Literal types mixing value kinds that compare equal in Python but are distinct on the wire (True / 1 / IntEnum 1 /
    Enum with value 1, False / 0, '1'): every ordered pair and triple starting with the unit's first value, as a bare
    shape, a dataclass field and a list element. Every listed value's own serialization must validate."""
    import itertools
    import typing
    from jsonschema import Draft202012Validator
    from mashumaro.codecs.basic import BasicEncoder
    from mashumaro.jsonschema import DRAFT_2020_12, OPEN_API_3_1, build_json_schema
    alpha = _lit_alphabet()
    first = unit[2]
    rest = [i for i in range(len(alpha)) if i != first]
    combos = [(first, j) for j in rest] + [(first, j, k) for j, k in itertools.permutations(rest, 2)]
    for combo in combos:
        vals = [alpha[i] for i in combo]
        lit = typing.Literal[tuple(vals)]
        with space.Ctx() as ctx:
            ctx.ns["LIT"] = lit
            ctx.run("@dataclass\nclass H:\n    x: LIT\n    xs: List[LIT]\n")
            H = ctx.ns["H"]
            for target, typ, mk in (("bare", lit, lambda v: v), ("field", H, lambda v: H(v, [v, v]))):
                key0 = f"{combo}/{target}"
                try:
                    enc = BasicEncoder(typ)
                except Exception as e:   # noqa: BLE001
                    res.outcomes["encoder-build-raised"] += 1     # not this property's subject
                    continue
                for dialect, dname in ((DRAFT_2020_12, "DRAFT_2020_12"), (OPEN_API_3_1, "OPEN_API_3_1")):
                    key = f"{key0}/{dname}"
                    res.transitions += 1
                    try:
                        sch = build_json_schema(typ, dialect=dialect).to_dict()
                        val = Draft202012Validator(doc_for(sch, dname))
                    except Exception as e:   # noqa: BLE001
                        res.cases += 1
                        res.violation(f"schema-build-raised|literal_mixed|{key}", "schema-build-raised", type(e).__name__,
                                      dict(desc=None, target="literal_mixed", key=key, value_index=-1, first=first,
                                           facts=dict(scenario="literal_mixed")), f"Literal{vals!r} {e!r:.200}")
                        continue
                    for vi, v in enumerate(vals):
                        res.cases += 1
                        try:
                            wire = enc.encode(mk(v))
                        except Exception:   # noqa: BLE001
                            res.outcomes["encode-raised"] += 1
                            continue
                        errs = list(val.iter_errors(wire))
                        if errs:
                            res.outcomes["rejected"] += 1
                            res.violation(f"schema-rejects|literal_mixed|{key}|{vi}", "schema-rejects-output", "rejected",
                                          dict(desc=None, target="literal_mixed", key=key, value_index=-1, first=first,
                                               facts=dict(scenario="literal_mixed")),
                                          f"Literal{vals!r} value={v!r} wire={wire!r} error={errs[0].message[:150]} schema={json.dumps(sch)[:300]}")
                        else:
                            res.outcomes["valid"] += 1
                            if any(type(o) is not type(v) and o == (v.value if hasattr(v, 'value') else v) for o in vals):
                                res.nontrivial += 1
    res.sample(dict(scenario="literal_mixed", first=repr(alpha[first]), literals=len(combos)))
    res.states += len(combos)
    return res


def doc_for(schema_dict, dialect_name):
    doc = dict(schema_dict)
    if dialect_name == "OPEN_API_3_1" and "$defs" in doc:
        doc["components"] = {"schemas": doc["$defs"]}
    return doc


def schema_features(d):
    ks = set(space.kinds_of(d))
    leaves = set(space.leaves_of(d))
    f = dict(has_flag=bool(leaves & {"flag", "intflag"}), has_unpacked_tuple="tupleu" in ks)
    nonstr = False

    def walk(x):
        nonlocal nonstr
        if x[0] in ("dict", "mapping", "mutmapping", "ordered", "defaultdict", "chain", "mproxy", "counter", "pep585dict", "baredict"):
            kd = x[1]
            while kd[0] in ("annotated", "newtype"):
                kd = kd[1]
            if kd[0] == "leaf" and space.LEAVES[kd[1]][2] != "str":
                nonstr = True
        for c in space.children(x):
            walk(c)
    walk(d)
    f["has_nonstring_keys"] = nonstr
    return f


QUICK = [True]


def run_unit(unit, only=None):
    from jsonschema import Draft202012Validator
    from mashumaro.codecs.basic import BasicEncoder
    from mashumaro.jsonschema import DRAFT_2020_12, OPEN_API_3_1, build_json_schema
    warnings.simplefilter("ignore")
    d, target = unit[:2]
    res = core.UnitResult()
    QUICK[0] = os.environ.get("VMC_TIER_C06", "quick") == "quick"
    if d is None:
        return run_special(unit, res)

    def V(clause, oc, key, idx, detail, facts=None):
        res.violation(f"{clause}|{space.show(d)}|{target}|{key}|{oc}", clause, oc,
                      dict(desc=d, target=target, key=key, value_index=idx, facts=dict(schema_features(d), **(facts or {}))), detail)
    cfg = {}
    by_alias = False
    if target.startswith("alias_"):
        cfg = dict(alias=target.split("_")[1], config={"serialize_by_alias": "True"})
        by_alias = True
    if target == "strategy":
        cfg = dict(config={"serialization_strategy": "{int: _IntHex()}"})
    with space.Ctx(dc=cfg) as ctx:
        if target == "strategy":
            from mashumaro.types import SerializationStrategy

            class _IntHex(SerializationStrategy, use_annotations=True):
                def serialize(self, value: int) -> str:
                    return hex(value)

                def deserialize(self, value: str) -> int:
                    return int(value, 16)
            ctx.ns["_IntHex"] = _IntHex
        try:
            if target == "bare":
                tdesc = d
            else:
                tdesc = ("dc", "plain", ((d, "req"), (d, "none")))
            T = space.hint(tdesc, ctx)
            vals = space.values(tdesc, ctx)
            if QUICK[0] and target != "bare":
                vals = space.pick(vals, 10 if target == "wrapped" else 4)     # quick tier: a spread of the product (stated in bounds)
            enc = BasicEncoder(T).encode
        except Exception as e:   # noqa: BLE001
            res.cases += 1
            V("build-failed", type(e).__name__, "class", -1, repr(e)[:200])
            return res
        o = ref.opts(by_alias=by_alias)
        combos = [(DRAFT_2020_12, "DRAFT_2020_12", False), (DRAFT_2020_12, "DRAFT_2020_12", True),
                  (OPEN_API_3_1, "OPEN_API_3_1", False), (OPEN_API_3_1, "OPEN_API_3_1", True)]
        if target == "bare" and not space.has_kind(d, {"dc", "dcgen", "dcgeninh", "dcinh", "dcself", "dcselft", "dcfwd", "dcmut", "dcselfg"}):
            combos = combos[:1]      # no dataclass => no definitions: dialect and all_refs cannot change the schema
        elif QUICK[0] and target != "bare":
            combos = [combos[0], combos[3]] if target == "wrapped" else [combos[3]]    # quick tier (stated in bounds)
        for dialect, dname, all_refs in combos:
            if True:
                key = f"{dname}/{all_refs}"
                res.transitions += 1
                try:
                    sch = build_json_schema(T, dialect=dialect, all_refs=all_refs).to_dict()
                except NotImplementedError:
                    res.counters["schema_building_unsupported"] += 1
                    continue
                except RecursionError:
                    res.cases += 1
                    V("schema-build-raised", "RecursionError", key, -1, "RecursionError", facts=dict(self_reference=bool({"dcself", "dcselft", "dcmut", "dcselfg"} & set(space.kinds_of(d)))))
                    continue
                except Exception as e:   # noqa: BLE001
                    res.cases += 1
                    kinds = set(space.kinds_of(d))
                    V("schema-build-raised", type(e).__name__, key, -1, repr(e)[:200],
                      facts=dict(self_reference=bool({"dcself", "dcselft", "dcmut", "dcselfg"} & kinds), typing_self="dcselft" in kinds))
                    continue
                doc = doc_for(sch, dname)
                if (dialect, all_refs) == (combos[0][0], combos[0][2]):
                    # metaschema validity is C20's subject (checked there for every combination); here once per target
                    try:
                        Draft202012Validator.check_schema(doc)
                    except Exception as e:   # noqa: BLE001
                        res.cases += 1
                        V("metaschema-invalid", "schema", key, -1, f"{str(e)[:150]} schema={json.dumps(sch)[:200]}")
                        continue
                val = Draft202012Validator(doc)
                # required == fields without default (wrapped targets)
                if target != "bare":
                    top = sch
                    if "$ref" in top:
                        name = top["$ref"].split("/")[-1]
                        top = (sch.get("$defs") or {}).get(name, {})
                    info = ctx.info[tdesc]
                    k0 = info["aliases"].get("f0", "f0")
                    if sorted(top.get("required", [])) != [k0]:
                        res.cases += 1
                        V("required-neq", "required", key, -1, f"required={top.get('required')} expected {[k0]}")
                for idx, v in enumerate(vals):
                    if only is not None and only != (key, idx):
                        continue
                    res.cases += 1
                    res.transitions += 1
                    try:
                        # (under the int-to-text Config the reference model does not apply: the document is the serializer's own)
                        inst = json.loads(json.dumps(enc(v) if target == "strategy" else ref.encode(tdesc, v, ctx, o)))
                    except (ref.Reject, TypeError, ValueError, OverflowError):
                        res.counters["instance_not_json"] += 1
                        continue
                    errs = sorted(val.iter_errors(inst), key=lambda e: list(e.absolute_path))
                    if errs:
                        e0 = _deepest(errs[0])
                        kw = e0.validator
                        res.outcomes[f"invalid:{kw}"] += 1
                        V("schema-rejects-serializer-output", str(kw), key, idx,
                          f"instance={inst!r:.150} error={e0.message[:120]} at {list(e0.absolute_path)} schema={json.dumps(sch)[:200]}",
                          facts=dict(keyword=str(kw), keywords=sorted({str(_deepest(x).validator) for x in errs}),
                                     error_classes=sorted({_error_class(x) for x in errs}),
                                     flag_value_not_single_member=_flag_combo(tdesc, v, ctx)))
                    else:
                        res.outcomes["valid"] += 1
                        if isinstance(inst, (dict, list)):
                            res.nontrivial += 1
                        if idx == 1 and len(res.samples) < 1:
                            res.sample(dict(schema=space.show(d), target=target, dialect=key, instance=repr(inst)[:80],
                                            json_schema=json.dumps(sch)[:160]))
    res.states += 1
    return res


def _error_class(err):
    """'keys' = the error lies under propertyNames; 'enum-int' = an integer rejected by an enum list (for anyOf: by one of the
    branches); else the keyword."""
    paths = [str(p) for p in err.absolute_schema_path]
    if "propertyNames" in paths:
        return "keys"
    if err.validator == "enum" and isinstance(err.instance, int) and not isinstance(err.instance, bool):
        return "enum-int"
    if err.context:
        classes = {_error_class(c) for c in err.context}
        for c in ("enum-int", "keys"):
            if c in classes:
                return c
        return sorted(classes)[0]
    return str(err.validator)


def _deepest(err):
    while err.context:
        err = sorted(err.context, key=lambda e: -len(list(e.absolute_path)))[0]
    return err


def _flag_combo(d, v, ctx):
    """The value holds a Flag/IntFlag that is not exactly one declared member."""
    import collections.abc
    import enum
    found = False

    def walk(x, depth=0):
        nonlocal found
        if depth > 8 or found:
            return
        if isinstance(x, enum.Flag):
            if x not in list(type(x)):
                found = True
        elif isinstance(x, (str, bytes, bytearray)):
            return
        elif hasattr(x, "maps"):
            for m in x.maps:
                walk(m, depth + 1)
        elif isinstance(x, collections.abc.Mapping):
            for k, y in x.items():
                walk(k, depth + 1)
                walk(y, depth + 1)
        elif hasattr(x, "__dataclass_fields__"):
            for f in x.__dataclass_fields__:
                walk(getattr(x, f), depth + 1)
        elif isinstance(x, (list, tuple, set, frozenset, __import__("collections").deque)):
            for y in x:       # (ip networks are iterable too - never walk arbitrary iterables)
                walk(y, depth + 1)
    walk(v)
    return found


def run_shape_special(unit, res):
    """Schemas outside the descriptor grammar: a field with init=False (still serialized) and tuples with a fixed unpacked part."""
    import dataclasses
    from typing import List, Tuple
    from jsonschema import Draft202012Validator
    from mashumaro.codecs.basic import BasicEncoder
    from mashumaro.jsonschema import DRAFT_2020_12, OPEN_API_3_1, build_json_schema
    from typing_extensions import Unpack
    _, kind = unit

    def V(clause, oc, key, detail):
        res.violation(f"{clause}|{kind}|{key}|{oc}", clause, oc, dict(desc=None, target=kind, key=key, value_index=-1,
                                                                     facts=dict(scenario=kind)), detail)
    with space.Ctx() as ctx:
        cases = []
        if kind == "forward_refs":
            # string annotations (direct and nested in a generic alias) in the members of dataclass / NamedTuple / TypedDict holders
            ctx.run("@dataclass\nclass Item:\n    a: int\n")
            Item = ctx.ns["Item"]
            for spelling, val in (('"Item"', Item(1)), ('List["Item"]', [Item(1)]), ('Optional["Item"]', None), ('Dict[str, "Item"]', {"k": Item(2)})):
                for holder, head in (("FD", "@dataclass\nclass FD:\n"), ("FN", "class FN(NamedTuple):\n"), ("FT", "class FT(TypedDict):\n")):
                    n = ctx.fresh(holder)
                    ctx.run(head.replace(holder, n) + f"    x: {spelling}\n")
                    H = ctx.ns[n]
                    cases.append((H, {"x": val} if holder == "FT" else H(val)))
        elif kind == "init_false_field":
            ctx.run("@dataclass\nclass IF:\n    a: int\n    b: int = field(default=5, init=False)\n    c: List[int] = field(default_factory=list, init=False)\n")
            IF = ctx.ns["IF"]
            cases = [(IF, IF(1)), (List[IF], [IF(2)])]
        else:
            # every tuple  (prefix of 0..2 items) + Unpack[inner] + (suffix of 0..2 items)  over six inner tuples, two of which
            # unpack a further fixed-length tuple themselves (with items before / after it), one variadic
            import itertools
            Pair = Tuple[str, float]
            inners = [(Tuple[()], ()), (Tuple[str, str], ("a", "b")), (Tuple[int, str], (1, "a")),
                      (Tuple[Unpack[Pair], bool], ("p", 1.5, True)), (Tuple[bool, Unpack[Pair]], (False, "p", 1.5)),
                      (Tuple[int, Unpack[Pair], bool], (7, "p", 1.5, True)), (Tuple[int, ...], (4, 5, 6))]
            sample = {int: 1, str: "s", float: 2.5}
            sides = [()] + [(t,) for t in sample] + [(int, str), (str, int)]
            for (inner, iv), pre, suf in itertools.product(inners, sides, sides):
                T = Tuple[tuple(pre) + (Unpack[inner],) + tuple(suf)]
                cases.append((T, tuple(sample[t] for t in pre) + iv + tuple(sample[t] for t in suf)))
        for ci, (T, v) in enumerate(cases):
            for dialect, dname in ((DRAFT_2020_12, "DRAFT_2020_12"), (OPEN_API_3_1, "OPEN_API_3_1")):
                for all_refs in (False, True):
                    key = f"{ci}/{dname}/{all_refs}"
                    res.cases += 1
                    res.transitions += 1
                    try:
                        sch = build_json_schema(T, dialect=dialect, all_refs=all_refs).to_dict()
                        val = Draft202012Validator(doc_for(sch, dname))
                        inst = json.loads(json.dumps(BasicEncoder(T).encode(v)))
                        errs = list(val.iter_errors(inst))
                    except Exception as e:   # noqa: BLE001
                        V("schema-build-raised", type(e).__name__, key, f"type={T} {e!r:.200}")
                        continue
                    if errs:
                        e0 = _deepest(errs[0])
                        V("schema-rejects-serializer-output", str(e0.validator), key,
                          f"type={T} instance={inst!r} error={e0.message[:150]} schema={json.dumps(sch)[:300]}")
                    else:
                        res.outcomes["valid"] += 1
                        res.nontrivial += 1
    res.sample(dict(scenario=kind))
    res.states += 1
    return res


CONSTRAINT_TARGETS = ("bare", "field", "field_default", "namedtuple", "typeddict", "list_element", "optional_field")


def _constraint_cases():
    """(annotated type, conforming value): every annotation class of mashumaro.jsonschema.annotations on a fitting type, plus outer
    constraints over nested containers whose INNER containers do not satisfy them (they are not constrained)."""
    from typing import Annotated, Dict, List, Optional
    from mashumaro.jsonschema import annotations as A
    from mashumaro.jsonschema.models import JSONSchema
    return [
        (Annotated[int, A.Minimum(1)], 1), (Annotated[int, A.Maximum(5)], 5), (Annotated[int, A.ExclusiveMinimum(0)], 1),
        (Annotated[float, A.ExclusiveMaximum(9)], 8.5), (Annotated[int, A.MultipleOf(2)], 4), (Annotated[int, A.Minimum(0), A.Maximum(0)], 0),
        (Annotated[str, A.MinLength(1)], "a"), (Annotated[str, A.MaxLength(3)], "abc"), (Annotated[str, A.Pattern("^a")], "ab"),
        (Annotated[List[int], A.MinItems(1)], [1]), (Annotated[List[int], A.MaxItems(2)], [1, 2]), (Annotated[List[int], A.UniqueItems(True)], [1, 2]),
        (Annotated[List[int], A.Contains(JSONSchema(enum=[1, 2]))], [3, 1]),
        (Annotated[List[int], A.Contains(JSONSchema(enum=[1, 2])), A.MinContains(1), A.MaxContains(2)], [1, 2, 3]),
        (Annotated[Dict[str, int], A.MaxProperties(2)], {"a": 1}), (Annotated[Dict[str, int], A.MinProperties(1)], {"a": 1}),
        (Annotated[Dict[str, int], A.DependentRequired({"a": {"b"}})], {"a": 1, "b": 2}),
        (Annotated[List[List[int]], A.MinItems(1), A.MaxItems(2)], [[1, 2, 3], []]),
        (Annotated[Dict[str, Dict[str, int]], A.MaxProperties(1)], {"g": {"a": 1, "b": 2}}),
        (Annotated[List[Optional[List[str]]], A.MinItems(2)], [None, ["x"]]),
    ]


def run_constraints(unit, res):
    import typing
    from jsonschema import Draft202012Validator
    from mashumaro.codecs.basic import BasicEncoder
    from mashumaro.jsonschema import DRAFT_2020_12, OPEN_API_3_1, build_json_schema
    _, _, target = unit

    def V(clause, oc, key, detail):
        res.violation(f"{clause}|constraints|{target}|{key}|{oc}", clause, oc, dict(desc=None, target="constraints:" + target, key=key, value_index=-1,
                                                                               facts=dict(scenario="constraints")), detail)
    for ci, (T, v) in enumerate(_constraint_cases()):
        with space.Ctx() as ctx:
            try:
                hn = ctx.inject(T, "_h")
                if target == "bare":
                    S, value = T, v
                elif target == "field":
                    S = ctx.execute("CF", f"@dataclass\nclass CF:\n    x: {hn}\n")
                    value = S(v)
                elif target == "field_default":
                    ctx.ns["_v"] = v
                    S = ctx.execute("CF", f"@dataclass\nclass CF:\n    n: int = 0\n    x: {hn} = field(default_factory=lambda: __import__('copy').deepcopy(_v))\n")
                    value = S()
                elif target == "optional_field":
                    ctx.ns["_oh"] = typing.Annotated[(typing.Optional[typing.get_args(T)[0]],) + tuple(T.__metadata__)]
                    S = ctx.execute("CF", "@dataclass\nclass CF:\n    x: _oh = None\n")
                    value = S(v)
                elif target == "namedtuple":
                    S = ctx.execute("CN", f"class CN(NamedTuple):\n    x: {hn}\n    n: int = 0\n")
                    value = S(v)
                elif target == "typeddict":
                    S = ctx.execute("CT", f"class CT(TypedDict):\n    x: {hn}\n")
                    value = {"x": v}
                else:
                    S, value = typing.List[T], [v, v]
            except Exception as e:   # noqa: BLE001
                res.cases += 1
                V("schema-build-raised", type(e).__name__, f"{ci}/class", f"type={T} {e!r:.200}")
                continue
            for dialect, dname in ((DRAFT_2020_12, "DRAFT_2020_12"), (OPEN_API_3_1, "OPEN_API_3_1")):
                for all_refs in (False, True):
                    key = f"{ci}/{dname}/{all_refs}"
                    res.cases += 1
                    res.transitions += 1
                    try:
                        sch = build_json_schema(S, dialect=dialect, all_refs=all_refs).to_dict()
                        doc = doc_for(sch, dname)
                        Draft202012Validator.check_schema(doc)
                        inst = json.loads(json.dumps(BasicEncoder(S).encode(value)))
                        errs = list(Draft202012Validator(doc).iter_errors(inst))
                    except Exception as e:   # noqa: BLE001
                        V("schema-build-raised", type(e).__name__, key, f"type={T} target={target} {e!r:.200}")
                        continue
                    if errs:
                        e0 = _deepest(errs[0])
                        V("schema-rejects-serializer-output", str(e0.validator), key,
                          f"type={T} target={target} instance={inst!r} error={e0.message[:150]} schema={json.dumps(sch)[:300]}")
                    else:
                        res.outcomes["valid"] += 1
                        res.nontrivial += 1
    res.sample(dict(scenario="constraints", target=target))
    res.states += 1
    return res


def run_special(unit, res):
    if unit[1] == "constraints":
        return run_constraints(unit, res)
    if unit[1] == "literal_mixed":
        return run_literal_mixed(unit, res)
    """Distinct classes / generic specialisations must not share one definition."""
    if unit[1] in ("init_false_field", "fixed_unpacked_tuple", "forward_refs"):
        return run_shape_special(unit, res)
    import dataclasses
    from typing import Generic, List, TypeVar
    from jsonschema import Draft202012Validator
    from mashumaro.codecs.basic import BasicEncoder
    from mashumaro.jsonschema import DRAFT_2020_12, OPEN_API_3_1, build_json_schema
    _, kind = unit

    def V(clause, oc, key, detail, facts=None):
        res.violation(f"{clause}|{kind}|{key}|{oc}", clause, oc, dict(desc=None, target=kind, key=key, value_index=-1,
                                                                     facts=dict(facts or {}, scenario=kind)), detail)
    with space.Ctx() as ctx:
        if kind == "generic_specialisations":
            ctx.run("T = TypeVar('T')\n@dataclass\nclass G(Generic[T]):\n    x: T\n@dataclass\nclass H:\n    a: G[int]\n    b: G[str]\n")
            H, G = ctx.ns["H"], ctx.ns["G"]
            value = H(G(1), G("s"))
        else:
            ctx.run("@dataclass\nclass X:\n    a: int\n")
            X1 = ctx.ns["X"]
            ctx.run("@dataclass\nclass X:\n    b: str\n")
            X2 = ctx.ns["X"]
            ctx.ns["X1"], ctx.ns["X2"] = X1, X2
            ctx.run("@dataclass\nclass H:\n    a: X1\n    b: X2\n")
            H = ctx.ns["H"]
            value = None
        wire = {"a": {"x": 1}, "b": {"x": "s"}} if kind == "generic_specialisations" else {"a": {"a": 1}, "b": {"b": "s"}}
        for dialect, dname in ((DRAFT_2020_12, "DRAFT_2020_12"), (OPEN_API_3_1, "OPEN_API_3_1")):
            for all_refs in (False, True):
                key = f"{dname}/{all_refs}"
                res.cases += 1
                res.transitions += 1
                try:
                    sch = build_json_schema(H, dialect=dialect, all_refs=all_refs).to_dict()
                    val = Draft202012Validator(doc_for(sch, dname))
                    inst = wire       # the documented basic form of H(a=.., b=..), written out by hand
                    errs = list(val.iter_errors(inst))
                except Exception as e:   # noqa: BLE001
                    V("schema-build-raised", type(e).__name__, key, repr(e)[:200])
                    continue
                if errs:
                    V("definitions-shared", "shared", key, f"instance={inst!r} error={errs[0].message[:120]} schema={json.dumps(sch)[:300]}")
                else:
                    res.outcomes["valid"] += 1
                    res.nontrivial += 1
    res.sample(dict(scenario=kind))
    res.states += 1
    return res


def replay(case):
    if case["desc"] is None and str(case["target"]).startswith("constraints:"):
        return [v for v in run_unit((None, "constraints", case["target"].split(":", 1)[1])).violations if v["case"]["key"] == case["key"]]
    if case["desc"] is None and case["target"] == "literal_mixed":
        return [v for v in run_unit((None, "literal_mixed", case["first"])).violations if v["case"]["key"] == case["key"]]
    if case["desc"] is None:
        return [v for v in run_unit((None, case["target"])).violations if v["case"]["key"] == case["key"]]
    d = core.detuple(case["desc"])
    only = (case["key"], case["value_index"]) if case["value_index"] >= 0 else None
    return [v for v in run_unit((d, case["target"]), only=only).violations if v["case"]["key"] == case["key"]]
