"""C07 — Absent keys take defaults, present keys always win (engine E1, field-layout lattice)."""
import dataclasses
import datetime
import itertools
from dataclasses import KW_ONLY, MISSING, InitVar, field, make_dataclass
from typing import ClassVar, List, Optional, Tuple

from vmc import core, space

PROPERTY = "C07"
ENGINE = "E1 schema-space"
RULE = ("every field layout up to the length bound over 15 field kinds that `dataclasses` accepts, every base/child split and "
        "default override, every presence vector (absent / present / present-null where nullable), through the mixin and the codec: "
        "each field must hold the converted input if its key is present and its default otherwise; init=False / InitVar / ClassVar "
        "members are never read; two results never share a factory-made object; the first missing required field is named. "
        "Non-trivial: at least one key is absent or null (a default or None decision is exercised).")
ASSUMPTIONS = ["field kinds and values as listed in bounds; conversions are represented by int and date fields"]
UNIT_TIMEOUT = 900
CHUNK = 16

# "optzero" / "optfalse": nullable fields whose default is falsy but not None (0, an empty tuple) - an explicit null must still win
KINDS = ["req", "def", "fac", "kreq", "kdef", "noinit", "optnone", "optdef", "conv", "initvar", "classvar", "kwsent", "facnoinit",
         "optzero", "optempty"]


def bounds(tier):
    return dict(tier=tier, max_layout_length=4 if tier == "quick" else 5, kinds=KINDS,
                falsy_default_kinds_max_length=3 if tier == "quick" else 5,
                splits="every base/child split below the maximum length; at the maximum length no split and a split after 2 fields",
                override="first base field (defaulted, required or init=False) re-declared in the child, as field(default=...) and as a bare class-body default; three-level variants (override in the middle class, bottom class inherits)", entry_points=["mixin", "codec"],
                presence=["absent", "present", "present-null (nullable kinds)"])


# the child re-declares f0: a new default for a defaulted field, a default for a required one, a non-None default for Optional = None
# ("noinit": the child turns an init=False member into an ordinary constructor parameter).  override == "bare" writes the re-declaration
# as a plain class-body default (`f0: int = 900`) instead of field(default=900).
OVERRIDE_DEFAULT = {"def": 900, "optdef": 901, "kdef": 902, "req": 903, "optnone": 904, "kreq": 905, "noinit": 906}


def mkfield(kind, i):
    name = f"f{i}"
    if kind == "req":
        return (name, int)
    if kind == "def":
        return (name, int, field(default=100 + i))
    if kind == "fac":
        return (name, List[int], field(default_factory=list))
    if kind == "kreq":
        return (name, int, field(kw_only=True))
    if kind == "kdef":
        return (name, int, field(default=200 + i, kw_only=True))
    if kind == "noinit":
        return (name, int, field(default=300 + i, init=False))
    if kind == "facnoinit":
        return (name, List[int], field(default_factory=lambda: [7], init=False))
    if kind == "optnone":
        return (name, Optional[int], field(default=None))
    if kind == "optdef":
        return (name, Optional[int], field(default=400 + i))
    if kind == "optzero":
        return (name, Optional[int], field(default=0))
    if kind == "optempty":
        return (name, Optional[Tuple[int, ...]], field(default=()))
    if kind == "conv":
        return (name, datetime.date)
    if kind == "initvar":
        return (name, InitVar[int], field(default=600 + i))
    if kind == "classvar":
        return (name, ClassVar[int], field(default=700 + i))
    if kind == "kwsent":
        return ("_", KW_ONLY)
    raise ValueError(kind)


def units(tier):
    maxlen = 4 if tier == "quick" else 5
    out = []
    for n in range(1, maxlen + 1):
        for layout in itertools.product(KINDS, repeat=n):
            if layout.count("kwsent") > 1 or layout.count("initvar") > 1:
                continue
            if tier == "quick" and n == maxlen and ("optzero" in layout or "optempty" in layout):
                continue      # quick: the two falsy-default kinds take part in layouts up to length 3 (stated in bounds)
            for split in range(0, n):
                if n == maxlen and split not in (0, 2):
                    continue   # the longest layouts are split in one place only (stated in bounds)
                overrides = (False, True) if (split and layout[0] in OVERRIDE_DEFAULT) else (False,)
                if split and layout[0] in ("def", "optdef", "req", "optnone", "noinit"):
                    overrides += ("bare",)
                for ov in overrides:
                    out.append((layout, split, ov))
                    if ov == "bare":
                        continue
                    if split and (n < maxlen or ov):
                        # three levels: Base <- Child (declares / overrides) <- Bottom (inherits without re-annotating)
                        out.append((layout, split, "middle" if ov else "bottom"))
    # aliased fields: the key a field is present under (alias / its own name / both) x every default kind x pass-through
    # and converting types x the three places an alias can be written x allow_deserialization_not_by_alias
    for src in ALIAS_SOURCES:
        for allow in (False, True):
            for pair in itertools.product(ALIASED_KINDS, repeat=2):
                out.append((("aliased",) + pair, src, allow))
    return out


ALIAS_SOURCES = ("metadata", "annotated", "config")
ALIASED_KINDS = ("req", "def", "fac", "optnone", "optdef", "optzero", "anydef", "anyfac", "ptdef", "convdef")
_AK = {  # kind -> (annotation source, default clause, default value maker, a present value, wire form of it, nullable)
    "req": ("int", None, None, 5, 5, False),
    "def": ("int", "default=7", lambda: 7, 5, 5, False),
    "fac": ("List[int]", "default_factory=list", list, [1], [1], False),
    "optnone": ("Optional[int]", "default=None", lambda: None, 5, 5, True),
    "optdef": ("Optional[int]", "default=7", lambda: 7, 5, 5, True),
    "optzero": ("Optional[int]", "default=0", lambda: 0, 5, 5, True),
    "anydef": ("Any", "default=7", lambda: 7, {"k": 1}, {"k": 1}, True),
    "anyfac": ("Any", "default_factory=list", list, ["q"], ["q"], True),
    "ptdef": ("int", "default=7", lambda: 7, 9, 9, True),           # deserialize=pass_through: None goes through as it is
    "convdef": ("date", "default=date(2000, 1, 1)", lambda: datetime.date(2000, 1, 1), datetime.date(2020, 2, 29), "2020-02-29", False),
}


def run_aliased(unit, only=None):
    (_, k0, k1), src, allow = unit
    res = core.UnitResult()
    kinds = (k0, k1)
    lines, cfg_aliases = [], {}
    order = sorted(range(2), key=lambda i: kinds[i] != "req")      # required fields first (dataclass rule)
    for i in order:
        ann, dflt, _, _, _, _ = _AK[kinds[i]]
        meta = []
        if kinds[i] == "ptdef":
            meta.append("'deserialize': pass_through")
        if src == "metadata":
            meta.append(f"'alias': 'al{i}'")
        elif src == "annotated":
            ann = f"Annotated[{ann}, Alias('al{i}')]"
        else:
            cfg_aliases[f"f{i}"] = f"al{i}"
        args = ([dflt] if dflt else []) + ([f"metadata={{{', '.join(meta)}}}"] if meta else [])
        lines.append(f"    f{i}: {ann}" + (f" = field({', '.join(args)})" if args else ""))
    for mixin in (True, False):
        with space.Ctx() as ctx:
            ctx.run("from datetime import date\nfrom typing import Annotated\nfrom mashumaro.types import Alias\n"
                    "from mashumaro import pass_through\n")
            srcs = "@dataclass\nclass A" + ("(DataClassDictMixin)" if mixin else "") + ":\n" + "\n".join(lines) + "\n"
            srcs += (f"    class Config(BaseConfig):\n        allow_deserialization_not_by_alias = {allow!r}\n"
                     f"        aliases = {cfg_aliases!r}\n")
            try:
                ctx.run(srcs)
                A = ctx.ns["A"]
                if mixin:
                    decode = A.from_dict
                else:
                    from mashumaro.codecs.basic import BasicDecoder
                    decode = BasicDecoder(A).decode
            except Exception as e:   # noqa: BLE001
                res.cases += 1
                res.violation(f"build-failed|aliased|{kinds}|{src}|{allow}", "build-failed", type(e).__name__,
                              dict(unit=unit, entry="mixin" if mixin else "codec", present=None), f"{srcs} -> {e!r:.200}")
                continue
            res.transitions += 1
            # presence of one field: absent / under the alias / under its own name / both (different values) / null under either
            def options(i):
                _, _, _, val, wire, nullable = _AK[kinds[i]]
                alt_val, alt_wire = {"convdef": (datetime.date(1999, 1, 1), "1999-01-01")}.get(kinds[i], (val, wire))
                o = [("absent", {}, None), ("alias", {f"al{i}": wire}, ("v", val)), ("name", {f"f{i}": alt_wire}, ("n", alt_val)),
                     ("both", {f"al{i}": wire, f"f{i}": alt_wire if kinds[i] == "convdef" else _other(wire)}, ("v", val))]
                if nullable:
                    o += [("null-alias", {f"al{i}": None}, ("v", None)), ("null-name", {f"f{i}": None}, ("n", None)),
                          ("alias-and-null-name", {f"al{i}": wire, f"f{i}": None}, ("v", val))]
                return o
            for p0 in options(0):
                for p1 in options(1):
                    tag = (p0[0], p1[0])
                    if only is not None and only != ("mixin" if mixin else "codec", tag):
                        continue
                    doc = dict(p0[1])
                    doc.update(p1[1])
                    want, missing = {}, None
                    for i, p in ((0, p0), (1, p1)):
                        how = p[2]
                        if how is not None and (how[0] == "v" or allow):
                            want[f"f{i}"] = how[1]
                        elif _AK[kinds[i]][1] is None:
                            missing = missing or f"f{i}"
                        else:
                            want[f"f{i}"] = _AK[kinds[i]][2]()
                    if missing is not None:
                        # the FIRST missing field in declaration order is named
                        missing = next(f"f{i}" for i in order if f"f{i}" not in want)
                    res.cases += 1
                    res.transitions += 1
                    try:
                        obj = decode(doc)
                        got = ("ok", {f.name: getattr(obj, f.name) for f in dataclasses.fields(obj)})
                    except Exception as e:   # noqa: BLE001
                        got = ("exc", type(e).__name__, getattr(e, "field_name", None))
                    exp = ("exc", "MissingField", missing) if missing is not None else ("ok", want)
                    if got != exp or (got[0] == "ok" and any(type(got[1][k]) is not type(want[k]) for k in want)):
                        res.outcomes["neq"] += 1
                        res.violation(f"aliased-presence|{kinds}|{src}|{allow}|{'mixin' if mixin else 'codec'}|{tag}", "present-key-or-default",
                                      got[1] if got[0] == "exc" else "value",
                                      dict(unit=unit, entry="mixin" if mixin else "codec", present=tag),
                                      f"kinds={kinds} alias written in {src}, allow_deserialization_not_by_alias={allow}: input={doc!r} expected={exp!r:.200} got={got!r:.200}")
                    else:
                        res.outcomes["ok"] += 1
                        if "absent" in tag or any(t.startswith("null") for t in tag) or "name" in tag:
                            res.nontrivial += 1
    res.states += 1
    return res


def _other(wire):
    if isinstance(wire, int):
        return wire + 1
    if isinstance(wire, list):
        return wire + ["other"]
    if isinstance(wire, dict):
        return dict(wire, other=1)
    return wire


def _post_init(initvar_name):
    def __post_init__(self, *a):
        object.__setattr__(self, "_seen_iv", a[0] if a else None)
    return __post_init__


def build(layout, split, override, mixin, ctx):
    from mashumaro import DataClassDictMixin
    fields = [mkfield(k, i) for i, k in enumerate(layout)]
    ns = {"__module__": ctx.modname}
    iv = [f"f{i}" for i, k in enumerate(layout) if k == "initvar"]
    bases = (DataClassDictMixin,) if mixin else ()
    if split:
        ns_b = {"__module__": ctx.modname}
        if any(k == "initvar" for k in layout[:split]):
            ns_b["__post_init__"] = _post_init(iv[0])
        Base = make_dataclass("Base", fields[:split], bases=bases, namespace=ns_b)
        ctx.ns["Base"] = Base
        child_fields = fields[split:]
        if override in (True, "middle", "bare"):
            k0 = layout[0]
            new_default = OVERRIDE_DEFAULT[k0]
            t0 = fields[0][1]
            spec = new_default if override == "bare" else field(default=new_default, kw_only=(k0 in ("kdef", "kreq")))
            child_fields = [("f0", t0, spec)] + child_fields
        if iv:
            ns["__post_init__"] = _post_init(iv[0])
        cls = make_dataclass("Child", child_fields, bases=(Base,), namespace=ns)
        if override in ("middle", "bottom"):
            ctx.ns["Child"] = cls
            cls = make_dataclass("Bottom", [("zz", int, field(default=1, kw_only=True))], bases=(cls,), namespace={"__module__": ctx.modname})
    else:
        if iv:
            ns["__post_init__"] = _post_init(iv[0])
        cls = make_dataclass("M", fields, bases=bases, namespace=ns)
    ctx.ns[cls.__name__] = cls
    return cls


def expected(layout, override, present):
    """-> (input dict, expected outcome) or None when the presence vector is not applicable."""
    d, exp, missing = {}, {}, None
    for i, (k, p) in enumerate(zip(layout, present)):
        name = f"f{i}"
        if k == "kwsent":
            if p:
                return None
            continue
        if p == 2 and k not in ("optnone", "optdef", "optzero", "optempty"):
            return None
        if p == 1:
            d[name] = {"fac": [5], "facnoinit": [6], "conv": "2020-02-03", "optempty": [7, 8]}.get(k, 50 + i)
        elif p == 2:
            d[name] = None
        overridden = override in (True, "middle", "bare") and i == 0
        if k == "noinit" and overridden:
            exp[name] = d[name] if p == 1 else OVERRIDE_DEFAULT[k]
        elif k == "noinit":
            exp[name] = 300 + i
        elif k == "facnoinit":
            exp[name] = [7]
        elif k == "initvar":
            exp["_seen_iv"] = 600 + i
        elif k == "classvar":
            exp["__classvar__" + name] = 700 + i
        elif p == 1:
            exp[name] = datetime.date(2020, 2, 3) if k == "conv" else ((7, 8) if k == "optempty" else d[name])
        elif p == 2:
            exp[name] = None
        else:
            if k in ("req", "kreq", "conv") and not overridden:
                if missing is None:
                    missing = name
            else:
                dflt = OVERRIDE_DEFAULT[k] if overridden else {"def": 100 + i, "fac": [], "kdef": 200 + i, "optnone": None, "optdef": 400 + i, "optzero": 0, "optempty": ()}[k]
                exp[name] = dflt
    if override in ("middle", "bottom"):
        exp["zz"] = 1
    return d, (("MissingField", missing) if missing else exp)


def observe(cls, layout, r):
    out = {}
    for f in dataclasses.fields(cls):
        out[f.name] = getattr(r, f.name)
    if any(k == "initvar" for k in layout):
        out["_seen_iv"] = getattr(r, "_seen_iv", "<unset>")
    for i, k in enumerate(layout):
        if k == "classvar":
            out["__classvar__" + f"f{i}"] = getattr(cls, f"f{i}")
            if f"f{i}" in vars(r):
                out["__instance_shadow__" + f"f{i}"] = vars(r)[f"f{i}"]
    return out


def run_unit(unit, only=None):
    if unit[0] and unit[0][0] == "aliased":
        return run_aliased(unit, only)
    from mashumaro.codecs.basic import BasicDecoder
    from mashumaro.exceptions import MissingField
    layout, split, override = unit
    res = core.UnitResult()
    ctx1, ctx2 = space.Ctx(), space.Ctx()
    try:
        clsm = build(layout, split, override, True, ctx1)
        clsp = build(layout, split, override, False, ctx2)
    except TypeError:
        res.counters["layouts_rejected_by_dataclasses"] += 1
        ctx1.close()
        ctx2.close()
        return res
    try:
        return _explore(unit, only, res, clsm, clsp)
    finally:
        ctx1.close()
        ctx2.close()


def _explore(unit, only, res, clsm, clsp):
    from mashumaro.codecs.basic import BasicDecoder
    from mashumaro.exceptions import MissingField
    layout, split, override = unit
    res.transitions += 2
    try:
        dec = BasicDecoder(clsp).decode
    except Exception as e:   # noqa: BLE001
        res.violation(f"build-failed|{layout}|{split}|{override}", "build-failed", type(e).__name__,
                      dict(unit=unit, entry="codec", present=None), repr(e))
        dec = None
    eps = [("mixin", clsm, clsm.from_dict)] + ([("codec", clsp, dec)] if dec else [])
    nullable = [k in ("optnone", "optdef", "optzero", "optempty") for k in layout]
    for present in itertools.product(*[((0, 1, 2) if nl else (0, 1)) for nl in nullable]):
        e = expected(layout, override, present)
        if e is None:
            continue
        d, want = e
        for ep, cls, fn in eps:
            if only is not None and only != (ep, present):
                continue
            res.cases += 1
            res.transitions += 2
            d_in = {k: (list(v) if isinstance(v, list) else v) for k, v in d.items()}
            try:
                r1 = fn(d_in)
                r2 = fn({k: (list(v) if isinstance(v, list) else v) for k, v in d.items()})
                got = observe(cls, layout, r1)
            except MissingField as ex:
                got = ("MissingField", ex.field_name)
                r1 = r2 = None
            except Exception as ex:   # noqa: BLE001
                got = ("EXC", type(ex).__name__, str(ex)[:150])
                r1 = r2 = None
            clause = None
            if got != want:
                clause = "default-or-value-neq"
            elif r1 is not None:
                for f in dataclasses.fields(cls):
                    a, b = getattr(r1, f.name), getattr(r2, f.name)
                    if isinstance(a, list):
                        if a is b:
                            clause = "factory-object-shared"
                        if f.name in d_in and a is d_in[f.name]:
                            clause = "input-container-shared"
            if clause:
                oc = got[0] if isinstance(got, tuple) else "value"
                res.outcomes[clause] += 1
                res.violation(f"{clause}|{layout}|{split}|{override}|{ep}|{oc}", clause, oc,
                              dict(unit=unit, entry=ep, present=present),
                              f"input={d!r} want={want!r:.300} got={got!r:.300}")
            else:
                res.outcomes["missing-field" if isinstance(want, tuple) else "instance"] += 1
                if 0 in present or 2 in present:
                    res.nontrivial += 1
                if len(res.samples) < 1 and 0 in present and not isinstance(want, tuple):
                    res.sample(dict(layout=layout, base_fields=split, override=override, input=repr(d), result=repr(got)[:160]))
    res.states += 1
    return res


def replay(case):
    u = core.detuple(case["unit"])
    unit = (tuple(u[0]), u[1], u[2])
    if unit[0][0] == "aliased":
        return run_aliased(unit, only=(case["entry"], tuple(case["present"])) if case["present"] is not None else None).violations
    return run_unit(unit, only=(case["entry"], tuple(case["present"])) if case["present"] is not None else None).violations
