"""C03 — Deserialization follows the documented coercions and is well typed (E1 + reference model)."""
from __future__ import annotations

import copy

from vmc import core, e1, foreign, ref, space

PROPERTY = "C03"
ENGINE = "E1 schema-space"
RULE = ("every (schema, entry point, input) with input drawn from Enc(S) u Mut(S) (whole-document pool, every single-position "
        "pool substitution, structural mutations): two-way comparison with ref.decode - Value => same result and conforming; "
        "Reject => the library raises; Unspecified => a returned result must conform. Non-trivial: the input is not a plain "
        "reference encoding (a mutation) or decoding converts at least one node.")
ASSUMPTIONS = [
    "vmc/ref.py is the trusted reading of README.md; inputs the documentation leaves open are Unspecified (one-way clause only)",
    "inputs are JSON-like values over the pool of vmc/foreign.py; double substitutions are not explored in this tier",
    "CPython 3.12.1; schemas bounded as stated",
]
UNIT_TIMEOUT = 600
CHUNK = 4


def bounds(tier):
    return dict(tier=tier, schemas=len(_schemas(tier)), pool=len(foreign.POOL), encodings_per_schema=2 if tier == "quick" else 4,
                entry_points=["codec", "mixin (depth<=1)", "from_dict of a holder built on the orjson / msgpack mixin (depth<=1)"], max_positions=40)


def _schemas(tier):
    maxd = 2 if tier == "quick" else 3
    return space._uniq([d for d in space.schemas(tier) if space.depth(d) <= maxd] + space.nullability_cross())


def units(tier):
    return [(d, tier) for d in _schemas(tier)]


def judge(d, x, ctx, o, fn):
    """-> (verdict, clause, outcome class, detail); verdict in ok / viol"""
    x_in = copy.deepcopy(x)
    try:
        exp = ("value", ref.decode(d, x, ctx, o))
    except ref.Reject as e:
        exp = ("reject", str(e))
    except ref.Unspecified as e:
        exp = ("unspec", str(e))
    r = e1.outcome(fn, x_in)
    if r[0] == "ok":
        got = r[1]
        if isinstance(got, tuple) and len(got) == 3 and got[0] == "pair":
            got = got[1]
        if exp[0] == "value":
            if not ref.same(got, exp[1]):
                return "viol", "ref-decode-neq", "neq", f"input={x!r:.200} expected={exp[1]!r:.200} got={got!r:.200}", exp, r
            if not ref.conforms(d, got, ctx):
                return "viol", "not-conforming", "type", f"input={x!r:.200} got={got!r:.200}", exp, r
            return "ok", "value", "", "", exp, r
        if exp[0] == "reject":
            return "viol", "accepted-rejected-input", "returned", f"input={x!r:.200} ref={exp[1]} got={got!r:.200}", exp, r
        if not ref.conforms(d, got, ctx):
            return "viol", "not-conforming", "type", f"input={x!r:.200} got={got!r:.200}", exp, r
        return "ok", "unspec-returned", "", "", exp, r
    e = r[1]
    if exp[0] == "value":
        return "viol", "raised-on-defined-input", e1.exc_class(e), f"input={x!r:.200} expected={exp[1]!r:.200} exc={e!r:.200}", exp, r
    return "ok", "raised", "", "", exp, r


def run_case(unit, only=None):
    d, tier = unit
    res = core.UnitResult()
    nenc = 2 if tier == "quick" else 4
    with space.Ctx() as ctx:
        h = space.hint(d, ctx)
        vals = space.values(d, ctx)
        o = ref.opts()
        encs = []
        for v in space.pick(vals, nenc):
            try:
                encs.append(ref.encode(d, v, ctx, o))
            except ref.Reject:
                pass
        eps = ["codec"] + (["mixin"] if space.depth(d) <= 1 else [])
        fns = {}
        for ep in eps:
            r = e1.outcome(e1.EntryPoints, ep, h, ctx)
            res.transitions += 1
            if r[0] == "exc":
                res.violation(f"build-failed|{space.show(d)}|{ep}", "build-failed", e1.exc_class(r[1]),
                              dict(desc=d, tier=tier, entry=ep, label=None), repr(r[1]))
                continue
            fns[ep] = r[1].decode
        if space.depth(d) <= 1:
            # the plain from_dict of a class built on a format mixin (which also compiles a decoder for its format's dialect)
            for fmt in ("orjson", "msgpack"):
                r = e1.outcome(_format_holder_from_dict, fmt, h, ctx)
                res.transitions += 1
                if r[0] == "exc":
                    res.violation(f"build-failed|{space.show(d)}|fmixin-{fmt}", "build-failed", e1.exc_class(r[1]),
                                  dict(desc=d, tier=tier, entry=f"fmixin-{fmt}", label=None), repr(r[1]))
                    continue
                fns[f"fmixin-{fmt}"] = r[1]
        for label, x in foreign.mutations(encs):
            for ep, fn in fns.items():
                if only is not None and (ep, label) != only:
                    continue
                res.cases += 1
                res.transitions += 1
                verdict, clause, out, detail, exp, r = judge(d, x, ctx, o, fn)
                res.outcomes[f"{exp[0]}/{r[0]}"] += 1
                if exp[0] == "unspec":
                    res.counters["unspecified_cases"] += 1
                if verdict == "viol":
                    facts = {}
                    if space.has_kind(d, {"union", "pep604", "tvconstr", "opt", "optpipe"}):
                        facts["none_fallback_reproduces"] = _alt_reproduces(d, x, ctx, r, none_in_fallback=True)
                        facts["union3_with_none"] = ref.has_union3_with_none(d)
                    if space.has_kind(d, {"nt"}):
                        facts["nt_swallow_reproduces"] = _alt_reproduces(d, x, ctx, r, nt_swallow_index_error=True)
                    res.violation(f"{clause}|{space.show(d)}|{ep}|{out}|{label[0]}", clause, out,
                                  dict(desc=d, tier=tier, entry=ep, label=label, facts=facts), detail)
                else:
                    if label[0] != "enc" or exp[0] != "value" or not ref.same(exp[1], x):
                        res.nontrivial += 1
                    if label[0] == "sub" and len(res.samples) < 1 and exp[0] == "value":
                        res.sample(dict(schema=space.show(d), input=repr(x)[:100], result=repr(exp[1])[:100]))
    res.states += 1
    return res


def _format_holder_from_dict(fmt, h, ctx):
    from vmc import formats
    Mixin, _, _ = formats.mixin(fmt)
    hn = ctx.inject(h, "_h")
    n = ctx.fresh("FW")
    ctx.ns["_FB"] = Mixin
    W = ctx.execute(n, f"@dataclass\nclass {n}(_FB):\n    x: {hn}\n")
    return lambda x: W.from_dict({"x": x}).x


def _alt_reproduces(d, x, ctx, r, **alt):
    """Does the reference with the named deviation switched on reproduce the observed result?"""
    if r[0] != "ok":
        return False
    try:
        exp = ref.decode(d, x, ctx, ref.opts(**alt))
    except (ref.Reject, ref.Unspecified):
        return False
    got = r[1]
    if isinstance(got, tuple) and len(got) == 3 and got[0] == "pair":
        got = got[1]
    return ref.same(got, exp)


run_unit = run_case


def replay(case):
    label = case["label"]
    res = run_case((core.detuple(case["desc"]), case["tier"]),
                   only=(case["entry"], core.detuple(label)) if label is not None else None)
    return res.violations
