"""C05 — Failures surface only as the documented exceptions and name the culprit (engine E1)."""
from __future__ import annotations

import copy
import itertools

from vmc import core, e1, foreign, ref, space

PROPERTY = "C05"
ENGINE = "E1 schema-space"
RULE = ("every dataclass layout of 1-3 fields over the field alphabet (required / defaulted / nullable) x class configuration (default, "
        "forbid_extra_keys, allow_deserialization_not_by_alias + aliases, lazy, plain-dataclass codec, class-level discriminator) x inputs: "
        "every pool member as the whole argument, every single-field corruption of a valid input (key removed; value replaced by every "
        "pool member the reference rejects for that field), every pair of corrupted fields, an unknown key added: the outcome must be an "
        "instance or exactly the documented exception naming the FIRST bad field in declaration order with the offending input value and "
        "the holder class; rejected data is never replaced by None or a default; the input is not modified; no NameError/SyntaxError in "
        "the exception chain. Non-trivial: the input is invalid (an exception is expected).")
ASSUMPTIONS = ["which exception wins between ExtraKeysError and a field error is not fixed by the property: either is accepted",
               "a failure inside a nested dataclass is judged at the top level (outer field is the culprit)"]
UNIT_TIMEOUT = 900
CHUNK = 4
L = space.leaf
FIELD_TYPES = [L("int"), L("str"), L("date"), ("opt", L("int")), ("list", L("int")), ("dict", L("str"), L("date")),
               ("nt", ((L("int"), False), (L("str"), True))), ("dc", "plain", ((L("int"), "req"),)), ("union", L("int"), L("date")),
               L("literal_str"), L("enum_str"), ("tuple", L("int"), L("str")), L("uuid"), ("td", ((L("int"), "req"),)),
               ("union", L("int"), L("none"), L("date")), L("timedelta"), ("set", L("int")), L("float"), L("bool"), L("bytes")]
CONFIGS = {
    "default": {},
    "forbid_extra": {"config": {"forbid_extra_keys": "True"}},
    "allow_alias": {"alias": "meta", "config": {"allow_deserialization_not_by_alias": "True"}},
    "lazy": {"config": {"lazy_compilation": "True"}},
    # the class extends a parent that has forbid_extra_keys too and a field of its own (the parent is a complete, compiled class)
    "forbid_extra_inherit": {"config": {"forbid_extra_keys": "True"}, "base": "_PB"},
}
PARENT_SRC = ("@dataclass\nclass _PB(DataClassDictMixin):\n    p_: int = field(default=0, kw_only=True)\n"
              "    class Config(BaseConfig):\n        forbid_extra_keys = True\n")


def bounds(tier):
    return dict(tier=tier, field_types=[space.show(f) for f in FIELD_TYPES], layouts=len(_layouts(tier)), configs=list(CONFIGS) + ["plain-codec", "discriminator", "kw_only dataclass (defaulted before required)"],
                pool=len(foreign.POOL), corruptions=["single", "pair"], entry_points=["mixin", "codec"])


def _layouts(tier):
    out = []
    F = FIELD_TYPES
    for a in F:
        out.append(((a, "req"),))
        out.append(((a, "dflt"),))
    for a, b in itertools.product(F, repeat=2):
        out.append(((a, "req"), (b, "req")))
    for a, b in itertools.product(F[:10], repeat=2):
        out.append(((a, "req"), (b, "dflt")))
        out.append(((a, "req"), (b, "none")))
    small = F[:6] if tier == "quick" else F[:12]
    for a, b, c in itertools.product(small, repeat=3):
        out.append(((a, "req"), (b, "req"), (c, "dflt")))
    return out


def units(tier):
    out = []
    for lay in _layouts(tier):
        out.append((lay, "default", "mixin"))
        if len(lay) <= 2:
            for c in ("forbid_extra", "allow_alias", "lazy", "forbid_extra_inherit"):
                out.append((lay, c, "mixin"))
            out.append((lay, "default", "plain"))
            out.append((lay, "default", "discriminator"))
    # keyword-only dataclasses: a defaulted field may be declared BEFORE a required one
    F = FIELD_TYPES[:8]
    for a, b in itertools.product(F, repeat=2):
        out.append((((a, "dflt"), (b, "req")), "default", "kwonly"))
        out.append((((a, "none"), (b, "req")), "default", "kwonly"))
    for a, b, c in itertools.product(FIELD_TYPES[:4], repeat=3):
        out.append((((a, "req"), (b, "dflt"), (c, "req")), "default", "kwonly"))
    out.append(((), "default", "mixin"))
    out.append(((), "default", "plain"))
    # failures NESTED below the field that is reported: a self-referential class corrupted 1..3 levels down, a bad element of a list of unions
    for kind in ("mixin", "plain"):
        out.append((("nested",), "default", kind))
    return out


DOCUMENTED = ("ValueError", "MissingField", "InvalidFieldValue", "ExtraKeysError", "MissingDiscriminatorError",
              "SuitableVariantNotFoundError")


def expected(desc, d, ctx, o, accept_name):
    """Reference: ('instance', value) | ('MissingField', fname) | ('InvalidFieldValue', fname, offending) | ('ValueError',) | ('unspec',)"""
    info = ctx.info[desc]
    if not isinstance(d, dict):
        return ("ValueError",)
    kw = {}
    for (e, kind), name in zip(desc[2], info["fields"]):
        key = info["aliases"].get(name, name)
        if key in d:
            y = d[key]
        elif accept_name and name in d:
            y = d[name]
        else:
            if kind == "req":
                return ("MissingField", name)
            continue
        if y is None and kind == "none":
            kw[name] = None
            continue
        try:
            kw[name] = ref.decode(("opt", e) if kind == "none" else e, y, ctx, o)
        except ref.Reject:
            return ("InvalidFieldValue", name, y)
        except ref.Unspecified:
            return ("unspec",)
    return ("instance", info["cls"](**kw))


def observe(fn, d):
    from mashumaro.exceptions import (ExtraKeysError, InvalidFieldValue, MissingDiscriminatorError, MissingField,
                                      SuitableVariantNotFoundError)
    try:
        return ("instance", fn(d)), None
    except MissingField as e:
        return ("MissingField", e.field_name, e.holder_class), e
    except InvalidFieldValue as e:
        return ("InvalidFieldValue", e.field_name, e.field_value, e.holder_class), e
    except ExtraKeysError as e:
        return ("ExtraKeysError", frozenset(e.extra_keys)), e
    except MissingDiscriminatorError as e:
        return ("MissingDiscriminatorError", e.field_name), e
    except SuitableVariantNotFoundError as e:
        return ("SuitableVariantNotFoundError",), e
    except RecursionError as e:
        return ("RecursionError",), e
    except Exception as e:   # noqa: BLE001
        return (type(e).__name__, str(e)[:120]), e


def inputs_for(desc, ctx, o):
    """(label, input, extra unknown keys) - exhaustive over the stated sets."""
    info = ctx.info[desc]
    vals = space.values(desc, ctx)
    valid = ref.encode(desc, vals[0], ctx, ref.opts(by_alias=bool(info["aliases"])))
    for i, p in enumerate(foreign.POOL):
        yield ("whole", i), copy.deepcopy(p)
    yield ("valid",), copy.deepcopy(valid)
    keys = [info["aliases"].get(n, n) for n in info["fields"]]
    # per-field corruption menus: missing + every pool member the reference rejects there
    menus = []
    for (e, kind), key in zip(desc[2], keys):
        menu = [("missing", None)]
        for pi, p in enumerate(foreign.POOL):
            if p is None and kind == "none":
                continue
            try:
                ref.decode(e, p, ctx, o)
            except ref.Reject:
                menu.append((f"pool{pi}", p))
            except ref.Unspecified:
                pass
        menus.append(menu)

    def corrupt(base, key, c):
        if c[0] == "missing":
            base.pop(key, None)
        else:
            base[key] = copy.deepcopy(c[1])
    for fi, key in enumerate(keys):
        for c in menus[fi]:
            dd = copy.deepcopy(valid)
            corrupt(dd, key, c)
            yield ("single", fi, c[0]), dd
    for fi, fj in itertools.combinations(range(len(keys)), 2):
        for ci in menus[fi][:4]:
            for cj in menus[fj][:4]:
                dd = copy.deepcopy(valid)
                corrupt(dd, keys[fi], ci)
                corrupt(dd, keys[fj], cj)
                yield ("pair", fi, ci[0], fj, cj[0]), dd
    dd = copy.deepcopy(valid)
    dd["__unknown__"] = 1
    yield ("extra",), dd
    if keys:
        dd = copy.deepcopy(valid)
        dd["__unknown__"] = 1
        dd.pop(keys[0], None)
        yield ("extra+missing",), dd


def verdict(exp, got, d, forbid, extra, holder, disc):
    """-> None when the observed outcome is what the reference expects, else (clause, outcome class, detail)."""
    kind = got[0]
    if kind not in DOCUMENTED and kind != "instance":
        return ("exception-type", kind, f"input={d!r:.150} raised {got!r:.200}")
    if forbid and extra and kind == "ExtraKeysError":
        if got[1] != frozenset(extra):
            return ("wrong-extra-keys", "ExtraKeysError", f"input={d!r:.150} extra_keys={set(got[1])!r} expected={extra!r}")
        return None
    if kind == "ExtraKeysError":
        return ("unexpected-extra-keys-error", "ExtraKeysError", f"input={d!r:.150} got={got!r}")
    if exp[0] == "unspec":
        return None
    if exp[0] == "instance":
        if forbid and extra:
            return ("extra-keys-accepted", kind, f"input={d!r:.150} got={got!r:.150}")
        if kind != "instance":
            return ("raised-on-valid-input", kind, f"input={d!r:.150} got={got!r:.200}")
        if not ref.same(got[1], exp[1]) and disc is None:
            return ("wrong-instance", "instance", f"input={d!r:.150} expected={exp[1]!r:.150} got={got[1]!r:.150}")
        return None
    if kind == "instance":
        return ("invalid-input-accepted", "instance", f"input={d!r:.150} expected={exp!r:.150} got={got[1]!r:.150}")
    if exp[0] == "ValueError":
        if kind != "ValueError":
            return ("exception-type", kind, f"non-mapping argument {d!r:.100} raised {got!r:.150}")
        return None
    if exp[0] == "MissingField":
        if kind != "MissingField" or got[1] != exp[1] or (got[2] is not holder and disc is None):
            return ("wrong-culprit", kind, f"input={d!r:.150} expected={exp!r} got={got!r:.200}")
        return None
    if exp[0] == "InvalidFieldValue":
        if kind != "InvalidFieldValue" or got[1] != exp[1]:
            return ("wrong-culprit", kind, f"input={d!r:.150} expected={exp[:2]!r} got={got!r:.200}")
        if not (got[2] is exp[2] or ref.same(got[2], exp[2])):
            return ("wrong-field-value", kind, f"input={d!r:.150} field_value={got[2]!r:.100} expected the offending input {exp[2]!r:.100}")
        if got[3] is not holder and disc is None:
            return ("wrong-holder-class", kind, f"holder_class={got[3]!r} expected={holder!r}")
        return None
    return None


DEVIATIONS = (("none_fallback_reproduces", dict(none_in_fallback=True)), ("nt_swallow_reproduces", dict(nt_swallow_index_error=True)))


def judge(res, V, desc, ctx, o, fn, label, d, cfgname, holder, disc=None):
    forbid = cfgname in ("forbid_extra", "forbid_extra_inherit")
    before = copy.deepcopy(d)
    dd_ref = {k: v for k, v in d.items() if k != "t"} if (disc and isinstance(d, dict)) else d
    exp = expected(desc, dd_ref, ctx, o, cfgname == "allow_alias")
    got, exc = observe(fn, d)
    res.transitions += 1
    res.cases += 1
    if not ref.same(d, before):
        V("input-mutated", "mutated", label, f"before={before!r:.150} after={d!r:.150}")
        return
    if exc is not None:
        chain = e1.exc_chain(exc)
        if any(isinstance(x, (NameError, SyntaxError)) for x in chain):
            V("library-made-error", "NameError", label, f"{[type(x).__name__ for x in chain]}")
            return
    kind = got[0]
    info = ctx.info[desc]
    known = set(info["aliases"].get(n, n) for n in info["fields"]) | ({"t"} if disc else set())
    if cfgname == "allow_alias":
        known |= set(info["fields"])
    if cfgname == "forbid_extra_inherit":
        known |= {"p_"}
    extra = set(d) - known if isinstance(d, dict) else set()
    res.outcomes[kind if kind in DOCUMENTED or kind == "instance" else "other:" + kind] += 1
    if exp[0] != "instance":
        res.nontrivial += 1
    v = verdict(exp, got, d, forbid, extra, holder, disc)
    if v is None:
        return
    clause, oc, detail = v
    facts = dict(argument_kind=type(d).__name__, whole=label[0] == "whole", union3_with_none=ref.has_union3_with_none(desc),
                 forbid_extra_keys=forbid)
    for name, alt in DEVIATIONS:
        try:
            exp_alt = expected(desc, dd_ref, ctx, ref.opts(**alt), cfgname == "allow_alias")
            facts[name] = verdict(exp_alt, got, d, forbid, extra, holder, disc) is None and exp_alt != exp
        except Exception:   # noqa: BLE001
            facts[name] = False
    if facts.get("none_fallback_reproduces") and facts["union3_with_none"]:
        clause = "swallowed-as-none"
    elif facts.get("nt_swallow_reproduces"):
        clause = "swallowed-as-default"
    V(clause, oc, label, detail, facts=facts)


def _swallow_facts(desc, d, ctx, got):
    facts = dict(union3_with_none=ref.has_union3_with_none(desc))
    for name, alt in (("none_fallback_reproduces", dict(none_in_fallback=True)), ("nt_swallow_reproduces", dict(nt_swallow_index_error=True))):
        try:
            exp = ref.decode(desc, d, ctx, ref.opts(**alt))
            facts[name] = bool(ref.same(got, exp))
        except (ref.Reject, ref.Unspecified, Exception):   # noqa: BLE001
            facts[name] = False
    return facts


def run_nested(unit):
    """The culprit reported is the TOP-LEVEL field, its field_value is the input value of that field, the holder is the class called."""
    from mashumaro.codecs.basic import BasicDecoder
    from mashumaro.exceptions import InvalidFieldValue
    _, _, kind = unit
    res = core.UnitResult()
    base = "(DataClassDictMixin)" if kind == "mixin" else ""
    with space.Ctx() as ctx:
        ctx.run(f"@dataclass\nclass Node{base}:\n    v: int\n    kids: List['Node'] = field(default_factory=list)\n"
                f"    nxt: Optional['Node'] = None\n    tags: List[typing.Union[int, float]] = field(default_factory=list)\n"
                f"    by: Dict[str, 'Node'] = field(default_factory=dict)\n")
        Node = ctx.ns["Node"]
        fn = Node.from_dict if kind == "mixin" else BasicDecoder(Node).decode

        def chain(path, bad):
            """a document whose node at `path` (list of 'kids' / 'nxt' / 'by' steps) is corrupted by `bad`"""
            node = bad
            for step in reversed(path):
                node = {"v": 1, step: [node] if step == "kids" else ({"k": node} if step == "by" else node)}
            return node
        cases = []
        for depth in (1, 2, 3):
            for steps in itertools.product(("kids", "nxt", "by"), repeat=depth):
                for bad in ({"v": "x"}, {}, {"v": 1, "tags": [1, 2.5, "x"]}, 5):
                    cases.append((steps, chain(list(steps), bad)))
        cases.append((("tags",), {"v": 1, "tags": [1, 2.5, "x"]}))
        for steps, d in cases:
            res.cases += 1
            res.transitions += 1
            res.nontrivial += 1
            top = steps[0]
            before = copy.deepcopy(d)
            try:
                r = fn(d)
                got = ("instance", r)
            except InvalidFieldValue as e:
                got = ("InvalidFieldValue", e.field_name, e.field_value, e.holder_class)
            except Exception as e:   # noqa: BLE001
                got = (type(e).__name__, str(e)[:100])
            ok = (got[0] == "InvalidFieldValue" and got[1] == top and (got[2] is d[top] or ref.same(got[2], before[top])) and got[3] is Node
                  and ref.same(d, before))
            if not ok:
                clause = "wrong-field-value" if got[0] == "InvalidFieldValue" and got[1] == top else ("wrong-culprit" if got[0] == "InvalidFieldValue" else "exception-type")
                res.violation(f"{clause}|nested|{kind}|{steps}", clause, got[0],
                              dict(unit=unit, label=("nested", kind, list(steps)), facts=dict(scenario="nested")),
                              f"input={before!r:.200} expected InvalidFieldValue({top!r}, field_value=input[{top!r}], holder=Node) got={got!r:.250}")
            else:
                res.outcomes["InvalidFieldValue"] += 1
    res.states += 1
    return res


def run_unit(unit, only=None):
    from mashumaro.codecs.basic import BasicDecoder
    if unit[0] == ("nested",):
        return run_nested(unit)
    lay, cfgname, kind = unit
    res = core.UnitResult()
    cfg = dict(CONFIGS[cfgname])
    variant = {"plain": "plain", "kwonly": "kwonly"}.get(kind, "mixin")
    desc = ("dc", variant, tuple(lay))

    def V(clause, oc, label, detail, facts=None):
        res.violation(f"{clause}|{space.show(desc)}|{cfgname}|{kind}|{oc}|{label[0]}", clause, oc,
                      dict(unit=unit, label=label, facts=dict(facts or {}, empty_dataclass=not lay, scenario=kind)), detail)
    with space.Ctx(dc=cfg) as ctx:
        try:
            if cfgname == "forbid_extra_inherit":
                ctx.run(PARENT_SRC)
            cls = space.hint(desc, ctx)
            space.values(desc, ctx)
        except Exception as e:   # noqa: BLE001
            res.cases += 1
            V("build-failed", type(e).__name__, ("build",), repr(e)[:200])
            return res
        o = ref.opts()
        fns = []
        disc = None
        if kind in ("mixin", "kwonly"):
            fns.append(("mixin", cls.from_dict, cls))
        if kind in ("mixin", "plain", "kwonly") and cfgname == "default":
            fns.append(("codec", BasicDecoder(cls).decode, cls))
        if kind == "discriminator":
            ctx.ns["_Sub"] = cls
            ctx.ns["ClassVar"] = __import__("typing").ClassVar
            info = ctx.info[desc]
            # Base <- Sub carrying the fields of the layout
            fields_src = ""
            base = ("@dataclass\nclass DBase(DataClassDictMixin):\n    class Config(BaseConfig):\n"
                    "        discriminator = Discriminator(field='t', include_subtypes=True)\n")
            ctx.run(base)
            hs = [ctx.inject(space.hint(e if k != "none" else ("opt", e), ctx), "_h") for e, k in lay]
            for (e, k), name, hn in zip(lay, info["fields"], hs):
                if k == "req":
                    fields_src += f"    {name}: {hn}\n"
                elif k == "none":
                    fields_src += f"    {name}: {hn} = None\n"
                else:
                    dv = ctx.inject(space.values(e, ctx)[0], "_dv")
                    fields_src += (f"    {name}: {hn} = field(default_factory=lambda: __import__('copy').deepcopy({dv}))\n"
                                   if space.is_mutable_default(space.values(e, ctx)[0]) else f"    {name}: {hn} = {dv}\n")
            ctx.run(f"@dataclass\nclass DSub(DBase):\n    t: ClassVar[str] = 'sub'\n{fields_src}")
            Base, Sub = ctx.ns["DBase"], ctx.ns["DSub"]
            ctx.info[desc] = dict(ctx.info[desc], cls=Sub)
            disc = True
            fns.append(("via-base", Base.from_dict, Sub))
        for label, d in inputs_for(desc, ctx, o):
            for ep, fn, holder in fns:
                if only is not None and only != (ep, label):
                    continue
                dd = copy.deepcopy(d)
                if disc and isinstance(dd, dict):
                    dd["t"] = "sub"
                judge(res, V, desc, ctx, o, fn, (label[0], ep) + tuple(label[1:]), dd, cfgname, holder, disc)
        if disc:
            valid = ref.encode(desc, space.values(desc, ctx)[0], ctx, ref.opts())
            for tag, want in ((None, "MissingDiscriminatorError"), ("nope", "SuitableVariantNotFoundError"), (5, "SuitableVariantNotFoundError"),
                              ([], "SuitableVariantNotFoundError"), ({}, "SuitableVariantNotFoundError")):
                dd = copy.deepcopy(valid)
                if tag is not None:
                    dd["t"] = tag
                got, exc = observe(Base.from_dict, dd)
                res.cases += 1
                res.transitions += 1
                res.nontrivial += 1
                if got[0] != want:
                    V("exception-type" if got[0] not in DOCUMENTED else "wrong-discriminator-error", got[0], ("tag", "via-base", repr(tag)),
                      f"tag={tag!r} expected {want} got {got!r:.200}", facts=dict(unhashable_tag=isinstance(tag, (list, dict))))
        if len(res.samples) < 1 and lay:
            res.sample(dict(layout=[(space.show(e), k) for e, k in lay], config=cfgname, scenario=kind))
    res.states += 1
    return res


def replay(case):
    u = core.detuple(case["unit"])
    label = core.detuple(case["label"])
    if label[0] == "nested":
        return [v for v in run_nested((("nested",), u[1], u[2])).violations if tuple(v["case"]["label"][2]) == tuple(label[2])]
    unit = (tuple(u[0]), u[1], u[2])
    if label[0] in ("build", "tag"):
        return [v for v in run_unit(unit).violations if v["case"]["label"][0] == label[0]]
    ep = label[1]
    lab = (label[0],) + tuple(label[2:])
    return run_unit(unit, only=(ep, lab)).violations
