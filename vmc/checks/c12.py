"""C12 — Discriminated unions pick exactly the tagged class in any definition order (engine E2)."""
from __future__ import annotations

import dataclasses
import itertools

from vmc import core, hist, space

PROPERTY = "C12"
ENGINE = "E2 histories"
RULE = ("every history up to the depth bound over {define subclass_i (each once, grandchild after its parent), decode(tag_j), "
        "decode(missing tag), decode(unknown tag), decode via subclass, field-less decode of 4 shapes, the same decodes through the "
        "format decoder of a format-mixin hierarchy} x wirings (Config.discriminator on DataClassDictMixin and on the orjson mixin, "
        "Annotated field of a mixin holder, BasicDecoder) x discriminator settings (field / no field, include_subtypes / supertypes, "
        "variant_tagger_fn none / single / list): each decode returns an instance of the class carrying the tag among the classes defined "
        "SO FAR (computed from the history), or the documented error. Non-trivial: a decode executed after at least one define.")
ASSUMPTIONS = ["hierarchy Base <- Sub1, Sub2; Sub1 <- Sub3; tags as class attributes; expected results computed from the history only"]
UNIT_TIMEOUT = 1500
RECLIMIT = 300

SUBS = ("Sub1", "Sub2", "Sub3")
PARENT = {"Sub1": "Base", "Sub2": "Base", "Sub3": "Sub1"}
FIELDS = {"Base": [], "Sub1": ["a"], "Sub2": ["b"], "Sub3": ["a", "c"]}
TAG = {"Base": "base", "Sub1": "s1", "Sub2": 0, "Sub3": ""}       # falsy tags are tags too
FULL = {"a": 1, "b": 2, "c": 3}
SHAPES = {"A": {"a": 1}, "B": {"b": 2}, "AC": {"a": 1, "c": 3}, "Z": {"z": 0}}


def bounds(tier):
    return dict(tier=tier, wirings=["config", "configfmt (orjson mixin: from_dict and from_json interleaved)", "codec2 (two discriminated fields over one hierarchy in a plain dataclass, one decoder)", "holder", "holder2 (two discriminated fields, two tagger functions)", "codec"], settings=len(_settings()), history_depth=6 if tier == "quick" else 8,
                subclasses=list(SUBS))


def _settings():
    out = []
    for field in ("t", None):
        for inc in ((True, False), (False, True), (True, True)):
            for tagger in ((None, "single", "list", "single_none") if field else (None,)):
                out.append((field, inc[0], inc[1], tagger))
                if tagger is None and inc[0]:
                    # Sub1 is an ABSTRACT intermediate class (ABC with an abstract method, no tag of its own); Sub3 below it is concrete
                    out.append((field, inc[0], inc[1], tagger, "abstract-mid"))
    return out


def units(tier):
    out = []
    for wiring in ("config", "configfmt", "holder", "holder2", "codec", "codec2"):
        for st in _settings():
            if wiring == "codec2" and not (st[0] and st[3] is None and len(st) == 4):
                continue      # two discriminated fields over the SAME hierarchy (tag attributes t and u) in one plain dataclass, one decoder
            if wiring in ("config", "configfmt") and not st[1]:
                continue      # a Config discriminator requires include_subtypes (documented ValueError)
            if wiring == "holder2" and not (st[0] and st[3]):
                continue      # the two-field holder is about two different tagger functions
            out.append((wiring, st, 6 if tier == "quick" else 8))
    return out


def tags_of(cname, tagger):
    if tagger is None:
        return [TAG[cname]]
    if tagger == "single":
        return [cname.lower()]
    if tagger == "single_none":
        return [None if cname == "Sub2" else cname.lower()]      # None is a tag like any other (JSON null)
    return [cname.lower(), cname.upper()]


class Fam:
    def __init__(self, wiring, st):
        from mashumaro.codecs.basic import BasicDecoder
        self.wiring, self.st = wiring, st
        field, subt, supt, tagger = st[:4]
        self.abstract_mid = len(st) > 4
        self.ctx = space.Ctx()
        ns = self.ctx.ns
        ns["ClassVar"] = __import__("typing").ClassVar
        if tagger == "single":
            ns["_tagger"] = lambda cls: cls.__name__.lower()
        elif tagger == "list":
            ns["_tagger"] = lambda cls: [cls.__name__.lower(), cls.__name__.upper()]
        elif tagger == "single_none":
            ns["_tagger"] = lambda cls: None if cls.__name__ == "Sub2" else cls.__name__.lower()
        disc = (f"Discriminator(field={field!r}, include_subtypes={subt}, include_supertypes={supt}"
                + (", variant_tagger_fn=_tagger" if tagger else "") + ")")
        self.disc_src = disc
        base = "DataClassDictMixin" if wiring in ("config", "holder", "holder2") else ""
        if wiring == "configfmt":
            # the hierarchy is built on a format mixin: every class has a second, per-format decoder that is compiled on demand
            from mashumaro.mixins.orjson import DataClassORJSONMixin
            ns["DataClassORJSONMixin"] = DataClassORJSONMixin
            base = "DataClassORJSONMixin"
        src = f"@dataclass\nclass Base({base}):\n    t: ClassVar[str] = 'base'\n    u: ClassVar[str] = 'BASE'\n"
        if wiring in ("config", "configfmt"):
            src += f"    class Config(BaseConfig):\n        discriminator = {disc}\n"
        self.ctx.run(src)
        self.defined = []
        self.decoder = None
        if wiring == "holder":
            self.ctx.run(f"@dataclass\nclass Holder(DataClassDictMixin):\n    x: Annotated[Base, {disc}]\n")
        elif wiring == "holder2":
            # a second, independent hierarchy discriminated by ANOTHER tagger function in the same holder class
            ns["_tagger2"] = lambda cls: "o-" + cls.__name__.lower()
            self.ctx.run("@dataclass\nclass Other:\n    pass\n@dataclass\nclass OSub(Other):\n    o: int = 9\n")
            disc2 = "Discriminator(field='t', include_subtypes=True, variant_tagger_fn=_tagger2)"
            self.ctx.run(f"@dataclass\nclass Holder(DataClassDictMixin):\n    x: Annotated[Base, {disc}]\n"
                         f"    y: Annotated[Other, {disc2}] = None\n")
        elif wiring == "codec":
            self.ctx.run(f"_shape = Annotated[Base, {disc}]")
            self.decoder = BasicDecoder(ns["_shape"])
        elif wiring == "codec2":
            disc_u = disc.replace("field='t'", "field='u'")
            self.ctx.run(f"@dataclass\nclass Holder:\n    x: Annotated[Base, {disc}]\n    y: Annotated[Base, {disc_u}]\n")
            self.decoder = BasicDecoder(ns["Holder"])

    def define(self, name):
        fields = "".join(f"    {f}: int\n" for f in FIELDS[name] if f not in FIELDS[PARENT[name]])
        if self.abstract_mid and name == "Sub1":
            self.ctx.ns["abc"] = __import__("abc")
            self.ctx.run(f"@dataclass\nclass Sub1(Base, abc.ABC):\n{fields}    @abc.abstractmethod\n    def must(self): ...\n")
        elif self.abstract_mid and name == "Sub3":
            self.ctx.run(f"@dataclass\nclass Sub3(Sub1):\n    t: ClassVar[str] = {TAG[name]!r}\n{fields}    def must(self): return 1\n")
        else:
            self.ctx.run(f"@dataclass\nclass {name}({PARENT[name]}):\n    t: ClassVar[str] = {TAG[name]!r}\n    u: ClassVar[str] = {name.upper()!r}\n{fields}")
        self.defined.append(name)

    def decode(self, d, via=None, fmt=False):
        ns = self.ctx.ns
        if fmt:
            import orjson
            return ns[via or "Base"].from_json(orjson.dumps(d))
        if via is not None:
            return ns[via].from_dict(d)
        if self.wiring in ("config", "configfmt"):
            return ns["Base"].from_dict(d)
        if self.wiring == "holder":
            return ns["Holder"].from_dict({"x": d}).x
        if self.wiring == "holder2":
            r = ns["Holder"].from_dict({"x": d, "y": {"t": "o-osub", "o": 4}})
            if type(r.y) is not ns["OSub"] or r.y.o != 4:
                raise AssertionError(f"second discriminated field decoded as {r.y!r}")
            return r.x
        if self.wiring == "codec2":
            # the second field carries the same data tagged through the OTHER attribute for the same class
            by_t = {repr(TAG[c]): c.upper() for c in TAG}
            dy = {k: v for k, v in d.items() if k != "t"}
            if "t" in d:
                dy["u"] = by_t.get(repr(d["t"]), "<UNKNOWN>")
            r = self.decoder.decode({"x": d, "y": dy})
            if type(r.y) is not type(r.x) or r.y != r.x:
                raise AssertionError(f"second discriminated field decoded as {r.y!r}, first as {r.x!r}")
            return r.x
        return self.decoder.decode(d)

    def dispose(self):
        self.ctx.close()


def _root_error(e):
    from mashumaro.exceptions import MissingDiscriminatorError, SuitableVariantNotFoundError
    seen = set()
    cur = e
    while cur is not None and id(cur) not in seen:
        seen.add(id(cur))
        if isinstance(cur, (MissingDiscriminatorError, SuitableVariantNotFoundError)):
            return type(cur).__name__
        cur = cur.__cause__ or cur.__context__
    return type(e).__name__


class _Hung(BaseException):
    """not an Exception: the generated dispatchers swallow Exception while trying variants"""


class _deadline:
    def __init__(self, seconds):
        self.seconds = seconds

    def __enter__(self):
        import signal

        def on(sig, frm):
            raise _Hung()
        self.old = signal.signal(signal.SIGPROF, on)
        signal.setitimer(signal.ITIMER_PROF, self.seconds)

    def __exit__(self, *a):
        import signal
        signal.setitimer(signal.ITIMER_PROF, 0)
        signal.signal(signal.SIGPROF, self.old)
        return False


class Model:
    def __init__(self, wiring, st):
        self.wiring, self.st = wiring, st
        field, subt, supt, tagger = st[:4]
        self.abstract_mid = len(st) > 4
        ops = [("define", s) for s in SUBS]
        if field:
            all_tags = []
            for c in ("Base",) + SUBS:
                all_tags += tags_of(c, tagger)
            ops += [("decode", t) for t in all_tags] + [("decode", "<missing>"), ("decode", "<unknown>")]
        else:
            ops += [("shape", s) for s in SHAPES]
        if wiring in ("config", "configfmt") and not self.abstract_mid:
            ops += [("via", "Sub1")]
        if wiring == "configfmt":
            # the same inputs through the format decoder (from_json), in any order with the from_dict ones
            ops += [("f" + o[0], o[1]) for o in ops if o[0] in ("decode", "shape", "via")]
        self.ops = ops

    def initial(self):
        return Fam(self.wiring, self.st)

    def dispose(self, f):
        f.dispose()

    def enabled(self, h):
        defined = [o[1] for o in h if o[0] == "define"]
        out = []
        for op in self.ops:
            if op[0] == "define":
                if op[1] in defined or (PARENT[op[1]] != "Base" and PARENT[op[1]] not in defined):
                    continue
            if op[0] in ("via", "fvia") and op[1] not in defined:
                continue
            out.append(op)
        return out

    def apply(self, f, op):
        if op[0] == "define":
            try:
                f.define(op[1])
                return ("ok", "defined")
            except Exception as e:   # noqa: BLE001
                return ("exc", type(e).__name__)
        fmt = op[0] in ("fdecode", "fshape", "fvia")
        if fmt:
            op = (op[0][1:], op[1])
        if op[0] == "decode":
            d = dict(FULL)
            if op[1] != "<missing>":
                d["t"] = op[1]
            via = None
        elif op[0] == "shape":
            d, via = dict(SHAPES[op[1]]), None
        else:
            d, via = dict(FULL, t="s3"), op[1]
        try:
            with _deadline(10):
                r = f.decode(d, via, fmt)
            if f.wiring in ("config", "configfmt"):
                # the Discriminator is the user's object (it may be shared with other hierarchies): it must stay as written
                dobj = f.ctx.ns["Base"].Config.discriminator
                if (dobj.field, dobj.include_subtypes, dobj.include_supertypes) != tuple(self.st[:3]):
                    return ("exc", f"user-Discriminator-object-altered:{dobj!r}")
            return ("ok", (type(r).__name__, tuple((fl.name, getattr(r, fl.name)) for fl in dataclasses.fields(r))))
        except RecursionError:
            return ("exc", "RecursionError")
        except _Hung:
            return ("exc", "did-not-return-within-10s-cpu")
        except Exception as e:   # noqa: BLE001
            return ("exc", _root_error(e))

    # ---- oracle computed from the history alone ------------------------------------------
    def expected(self, h, op):
        field, subt, supt, tagger = self.st[:4]
        abstract = {"Sub1"} if self.abstract_mid else set()      # cannot be instantiated and carries no tag of its own
        if op[0] in ("fdecode", "fshape", "fvia"):
            op = (op[0][1:], op[1])      # the format decoder must pick the same class
        if self.wiring in ("config", "configfmt"):
            supt = False      # documented: the class-level discriminator never yields the class itself
        defined = [o[1] for o in h if o[0] == "define"]
        if op[0] == "define":
            return ("ok", "defined")

        def inst(c, d):
            return ("ok", (c, tuple((fl, d[fl]) for fl in FIELDS[c])))

        def dfs(c):
            out = []
            for s in defined:          # __subclasses__() is in definition order
                if PARENT[s] == c:
                    out.append(s)
                    out += dfs(s)
            return out
        eligible = (dfs("Base") if subt else []) + (["Base"] if supt else [])
        if op[0] == "via":
            return inst(op[1], FULL)
        if op[0] == "decode":
            if op[1] == "<missing>":
                return ("exc", "MissingDiscriminatorError")
            hit = None
            for c in eligible:
                if c not in abstract and op[1] in tags_of(c, tagger):
                    hit = c      # tags are unique in this hierarchy
            if hit is None:
                return ("exc", "SuitableVariantNotFoundError")
            return inst(hit, FULL)
        d = SHAPES[op[1]]
        for c in eligible:
            if c not in abstract and all(fl in d for fl in FIELDS[c]):
                return inst(c, d)
        return ("exc", "SuitableVariantNotFoundError")

    def canon(self, f):
        ns = f.ctx.ns
        roles = {}
        st = [tuple(f.defined)]
        for c in ("Base", "Holder") + SUBS:
            if c in ns:
                st.append((c, hist.class_state(ns[c], roles)))
        if f.decoder is not None:
            g = getattr(f.decoder.decode, "__globals__", {})
            regs = [v for k, v in g.items() if k.startswith("attrs_registry_") and isinstance(v, dict)]
            names, variants = [], []
            for r in regs:
                for k, holder in r.items():
                    names.append(getattr(k, "__name__", repr(k)))
                    for ak, av in vars(holder).items():
                        if "variants" in ak and isinstance(av, dict):
                            variants.append(tuple(sorted((str(tg), c.__name__) for tg, c in av.items())))
                        elif ak.startswith("__mashumaro"):
                            variants.append((getattr(k, "__name__", ""), hist._HEX.sub("#", ak)))
            st.append(("codec", tuple(sorted(names)), tuple(sorted(map(str, variants)))))
        return tuple(st)


def run_unit(unit, only=None):
    wiring, st, depth = unit
    res = core.UnitResult()
    model = Model(wiring, st)
    if only is not None:
        h, op = only
        f = hist.rebuild(model, h)
        try:
            got = model.apply(f, op)
        finally:
            f.dispose()
        exp = model.expected(h, op)
        if got != exp:
            res.violation("replay", "wrong-variant", got[1] if got[0] == "exc" else "value", dict(unit=unit, history=h, op=op),
                          f"got={got!r} expected={exp!r}")
        return res
    r = hist.bfs(model, depth)
    res.cases = res.transitions = r.transitions
    res.states = r.states
    res.capped = r.capped
    res.outcomes.update(r.outcomes)
    res.counters["states_with_multiple_predecessors"] += r.multi_pred
    res.counters["max_depth_completed"] = r.max_depth + 1
    res.nontrivial = max(0, r.transitions - len(model.ops))
    for (h, op, got, exp) in r.violations:
        oc = got[1] if got[0] == "exc" else "value"
        res.violation(f"wrong-variant|{wiring}|{st}|{op}|{oc}|{[o[1] for o in h if o[0] == 'define']}", "wrong-variant", str(oc)[:60],
                      dict(unit=unit, history=h, op=op), f"history={h!r} op={op!r} got={got!r} expected={exp!r}")
    for s in r.samples[:1]:
        res.sample(dict(wiring=wiring, settings=st, **s))
    return res


def replay(case):
    u = core.detuple(case["unit"])
    unit = (u[0], tuple(u[1]), u[2])
    h = tuple(tuple(o) for o in core.detuple(case["history"]))
    return run_unit(unit, only=(h, tuple(core.detuple(case["op"])))).violations
