"""C18 — No hidden sharing or mutation (engine E1)."""
from __future__ import annotations

import collections
import copy
import gc
import itertools
import types

from vmc import core, e1, ref, space

PROPERTY = "C18"
ENGINE = "E1 schema-space"
RULE = ("every container schema up to depth 3 over {int, date, any} leaves x every subset N of {list, dict, set, deque, OrderedDict} as "
        "no_copy_collections (via codec default_dialect, Config.dialect, call dialect, and two sources at once where the most specific listing "
        "applies even when empty) plus the three format dialects x values with "
        "non-empty containers at every level: the set of mutable containers shared by identity between value and output must equal the "
        "model's prediction exactly (origin in N and conversion-free elements, Any positions excepted); the value is unchanged; decoding "
        "shares no typed container with its input and leaves it unchanged. Non-trivial: the value holds at least one non-empty mutable container.")
ASSUMPTIONS = ["typed container = list/dict/set/deque/OrderedDict/bytearray/defaultdict/Counter/ChainMap instance at a position not annotated Any"]
UNIT_TIMEOUT = 600
CHUNK = 8
L = space.leaf
NC_TYPES = ("list", "dict", "set", "deque", "OrderedDict")
MUTABLE = (list, dict, set, collections.deque, bytearray)
# deepcopy cannot copy a mappingproxy on its own
copy._deepcopy_dispatch[types.MappingProxyType] = lambda x, memo: types.MappingProxyType(copy.deepcopy(dict(x), memo))


def bounds(tier):
    return dict(tier=tier, schemas=len(_schemas(tier)), no_copy_subsets=32, leaves=["int", "date", "any", "annotated SerializableType returning its own list", "the builtins list / dict without parameters"],
                routes=["codec default_dialect", "Config.dialect", "call dialect", "orjson/msgpack/toml dialects", "call dialect over Config.dialect (6 listing pairs, empty and absent listings included)", "Config.dialect over the orjson mixin's dialect (4 listings)"], max_depth=3)


def wrap(e):
    out = [("list", e), ("dict", L("str"), e), ("deque", e), ("ordered", L("str"), e), ("tuple", e, L("int")), ("opt", e),
           ("dc", "mixin", ((e, "req"),)), ("seq", e), ("mapping", L("str"), e), ("mproxy", L("str"), e),
           ("chain", L("str"), e), ("defaultdict", L("str"), e), ("mutmapping", L("str"), e)]
    if e == L("any"):
        out.append(("mproxy", L("any"), L("any")))      # neither keys nor values need conversion
    if e[0] != "leaf":
        out.append(("union", L("int"), e))
    if e[0] == "leaf" and e[1] in ("int", "date"):
        out.append(("set", e))
    return out


def _schemas(tier):
    leaves = [L("int"), L("date"), L("any"), L("abag")]
    d1 = list(space.BARE) + [w for e in leaves + list(space.BARE) for w in wrap(e)]
    d2 = [w for e in d1 for w in wrap(e)]
    out = d1 + d2
    if tier == "thorough":
        out += [w for e in d2 for w in wrap(e)]
    else:
        core_w = lambda e: [("list", e), ("dict", L("str"), e), ("opt", e), ("dc", "mixin", ((e, "req"),))]   # noqa: E731
        out += [w for e in d2 for w in core_w(e)]
    return space._uniq(out)


def units(tier):
    return [(d,) for d in _schemas(tier)]


# ---- the model ------------------------------------------------------------------------------
def origin_name(d):
    return {"list": "list", "seq": None, "dict": "dict", "mapping": None, "deque": "deque", "ordered": "OrderedDict", "set": "set",
            "barelist": "list", "baredict": "dict"}.get(d[0])


NESTED_INHERITS = [True]
NATIVE_LEAVES = set()      # set per route: leaves the format dialect passes through


def expr_is_value(d, N, elem=True):
    """The generated packer expression for this position is literally `value` (no conversion, no copy)."""
    k = d[0]
    if k == "leaf":
        return d[1] in ("int", "str", "any", "none", "float", "bool") or d[1] in NATIVE_LEAVES
    if k in ("list", "deque", "set", "seq", "barelist"):
        return origin_name(d) in N and expr_is_value(d[1], N)
    if k in ("dict", "ordered", "mapping", "baredict", "mproxy", "chain", "defaultdict", "mutmapping"):
        return origin_name(d) in N and expr_is_value(d[1], N) and expr_is_value(d[2], N)
    if k in ("union", "opt"):
        ms = space.flat_members(d)                  # typing flattens nested unions / Optional members
        if len(ms) == 2 and ("leaf", "none") in ms:   # this is Optional[X]: `x if x is not None else None` inside collections
            other = [m for m in ms if m != ("leaf", "none")][0]
            return False if elem else expr_is_value(other, N, False)
        return all(expr_is_value(m, N) for m in ms)
    return False


def returns_same_object(d, N):
    k = d[0]
    if k in ("opt", "union"):
        return None     # decided per value by the member
    return expr_is_value(d, N)


def containers(x, acc, any_ok=True):
    """ids of the mutable containers reachable from x."""
    if isinstance(x, MUTABLE):
        acc[id(x)] = x
    if isinstance(x, types.MappingProxyType):
        inner = gc.get_referents(x)[0]         # a mappingproxy is a live view: what matters is the mapping it wraps
        if isinstance(inner, dict):
            acc[id(inner)] = inner
        x = inner
    if isinstance(x, collections.ChainMap):
        containers(x.maps, acc)              # the list of maps and every map are the instance's own containers
        return acc
    if type(x).__name__ == "Bag" and hasattr(x, "items") and isinstance(x.items, list):
        containers(x.items, acc)      # the list owned by an annotated SerializableType value
    if isinstance(x, dict):
        for v in x.values():
            containers(v, acc)
    elif isinstance(x, (list, tuple, set, frozenset, collections.deque)):
        for v in x:
            containers(v, acc)
    elif hasattr(x, "__dataclass_fields__"):
        for f in x.__dataclass_fields__:
            containers(getattr(x, f), acc)
    return acc


def predict(d, v, N, shared, anyzone, ctx):
    """Walk schema and value together; collect ids expected to be shared and ids under Any positions."""
    k = d[0]
    if v is None:
        return
    if k == "leaf":
        if d[1] == "any":
            containers(v, anyzone)
        elif d[1] == "abag" and "list" in N:
            containers(v.items, shared)     # _serialize() -> List[int]: packed like a List[int] position
        return
    if k in ("union", "opt"):
        for m in space.flat_members(d):
            if ref.conforms(m, v, ctx):
                return predict(m, v, N, shared, anyzone, ctx)
        return
    if k == "dc":
        # a nested dataclass is serialized by its own method: a codec's default_dialect reaches it, the holder's
        # Config.dialect or a call dialect does not (the nested class did not opt in)
        info = ctx.info[d]
        Nn = N if NESTED_INHERITS[0] is True else set(NESTED_INHERITS[0] or ())
        for (e, _), name in zip(d[2], info["fields"]):
            predict(e, getattr(v, name), Nn, shared, anyzone, ctx)
        return
    if returns_same_object(d, N):
        containers(v, shared)
        _mark_any(d, v, anyzone)
        return
    if k in ("list", "deque", "set", "seq", "barelist"):
        for x in v:
            predict(d[1], x, N, shared, anyzone, ctx)
    elif k in ("dict", "ordered", "mapping", "baredict", "mproxy", "chain", "defaultdict", "mutmapping"):
        for x in v.values():
            predict(d[2], x, N, shared, anyzone, ctx)
    elif k == "tuple":
        for e, x in zip(d[1:], v):
            predict(e, x, N, shared, anyzone, ctx)


def _mark_any(d, v, anyzone):
    k = d[0]
    if v is None:
        return
    if k == "leaf":
        if d[1] == "any":
            containers(v, anyzone)
    elif k in ("list", "deque", "set", "seq", "barelist"):
        for x in v:
            _mark_any(d[1], x, anyzone)
    elif k in ("dict", "ordered", "mapping", "baredict", "mproxy", "chain", "defaultdict", "mutmapping"):
        for x in v.values():
            _mark_any(d[2], x, anyzone)
    elif k in ("opt",):
        _mark_any(d[1], v, anyzone)


def _any_zone_wire(d, w, zone, ctx):
    """ids of the containers of an INPUT document that sit at or below a position annotated Any (over-approximated for unions)."""
    k = d[0]
    if w is None:
        return
    if k == "leaf":
        if d[1] == "any":
            containers(w, zone)
        return
    if k in ("opt", "union"):
        for m in space.flat_members(d):
            _any_zone_wire(m, w, zone, ctx)
        return
    if k in ("list", "deque", "set", "seq", "barelist") and isinstance(w, list):
        for x in w:
            _any_zone_wire(d[1], x, zone, ctx)
    elif k in ("dict", "ordered", "mapping", "baredict", "mproxy", "chain", "defaultdict", "mutmapping") and isinstance(w, dict):
        for x in w.values():
            _any_zone_wire(d[2], x, zone, ctx)
    elif k == "chain" and isinstance(w, list):
        for m in w:
            if isinstance(m, dict):
                for x in m.values():
                    _any_zone_wire(d[2], x, zone, ctx)
    elif k == "tuple" and isinstance(w, list):
        for e, x in zip(d[1:], w):
            _any_zone_wire(e, x, zone, ctx)
    elif k == "dc" and isinstance(w, dict):
        for (e, _), name in zip(d[2], ctx.info[d]["fields"]):
            _any_zone_wire(e, w.get(name), zone, ctx)


def _dialect(N):
    from mashumaro.dialect import Dialect
    if N == ("-",):
        return type("NC", (Dialect,), {})
    real = {"list": list, "dict": dict, "set": set, "deque": collections.deque, "OrderedDict": collections.OrderedDict}
    return type("NC", (Dialect,), {"no_copy_collections": tuple(real[n] for n in N)})


def _values(d, ctx):
    """values with non-empty containers at every level (plus the stock values)."""
    return [v for v in space.values(d, ctx)]


def run_unit(unit, only=None):
    from mashumaro.codecs.basic import BasicDecoder, BasicEncoder
    from mashumaro.mixins.msgpack import MessagePackDialect
    from mashumaro.mixins.orjson import OrjsonDialect
    from mashumaro.mixins.toml import TOMLDialect
    (d,) = unit
    res = core.UnitResult()
    subsets = [tuple(s) for r in range(len(NC_TYPES) + 1) for s in itertools.combinations(NC_TYPES, r)]
    routes = [("codec", N) for N in subsets] + [("cfgdialect", N) for N in subsets[::3]] + [("calldialect", N) for N in subsets[1::3]]
    routes += [("fmt-orjson", ("list", "dict")), ("fmt-msgpack", ("list", "dict")), ("fmt-toml", ("list", "dict"))]
    # two sources at once: the listing of the most specific source that HAS one applies, an empty listing included
    # (written hi + ("|",) + lo; "-" = that dialect does not mention the option)
    LD = ("list", "dict")
    for hi, lo in (((), LD), (("list",), LD), (LD, ()), (("dict",), ("list",)), (("-",), LD), (("deque",), ("-",))):
        routes.append(("call>cfg", hi + ("|",) + lo))
    for hi in ((), ("list",), ("dict", "deque"), ("-",)):
        routes.append(("cfg>orjson", hi + ("|",) + LD))

    def V(clause, route, N, idx, detail, oc=""):
        N = Nfull[0]
        res.violation(f"{clause}|{space.show(d)}|{route}|{N}|{oc}", clause, oc or clause,
                      dict(desc=d, route=route, N=N, value_index=idx), detail)
    Nfull = [()]
    for route, N in routes:
        if only is not None and only[:2] != (route, N):
            continue
        NESTED_INHERITS[0] = route not in ("cfgdialect", "calldialect", "call>cfg")
        NATIVE_LEAVES.clear()
        NATIVE_LEAVES.update({"fmt-orjson": {"date"}, "fmt-toml": {"date"}, "cfg>orjson": {"date"}}.get(route, ()))
        Nfull[0] = N
        if "|" in N:
            hi, lo = N[:N.index("|")], N[N.index("|") + 1:]
            N = lo if hi == ("-",) else hi
            N = () if N == ("-",) else N
            if route == "cfg>orjson":
                NESTED_INHERITS[0] = lo      # the format dialect reaches nested classes, the holder's Config.dialect does not
        with space.Ctx() as ctx:
            try:
                h = space.hint(d, ctx)
                vals = _values(d, ctx)
                if route == "codec":
                    enc = BasicEncoder(h, default_dialect=_dialect(N)).encode
                elif route.startswith("fmt-"):
                    dl = {"fmt-orjson": OrjsonDialect, "fmt-msgpack": MessagePackDialect, "fmt-toml": TOMLDialect}[route]
                    enc = BasicEncoder(h, default_dialect=dl).encode
                elif route == "cfgdialect":
                    ctx.ns["_NC"] = _dialect(N)
                    E = e1.EntryPoints("mixin", h, ctx, holder_config={"dialect": "_NC"})
                    enc = E.encode
                elif route == "call>cfg":
                    ctx.ns["_LO"] = _dialect(lo)
                    hn = ctx.inject(h, "_h")
                    W = ctx.execute("CW", f"@dataclass\nclass CW(DataClassDictMixin):\n    x: {hn}\n    class Config(BaseConfig):\n"
                                          f"        code_generation_options = [ADD_DIALECT_SUPPORT]\n        dialect = _LO\n")
                    nc = _dialect(hi)
                    enc = lambda v, W=W, nc=nc: W(v).to_dict(dialect=nc)["x"]   # noqa: E731
                elif route == "cfg>orjson":
                    from mashumaro.mixins.orjson import DataClassORJSONMixin
                    ctx.ns["_HI"] = _dialect(hi)
                    ctx.ns["DataClassORJSONMixin"] = DataClassORJSONMixin
                    hn = ctx.inject(h, "_h")
                    W = ctx.execute("CW", f"@dataclass\nclass CW(DataClassORJSONMixin):\n    x: {hn}\n    class Config(BaseConfig):\n"
                                          f"        dialect = _HI\n")
                    enc = lambda v, W=W: W(v).to_jsonb(encoder=lambda doc, **kw: doc)["x"]   # noqa: E731
                else:
                    ctx.ns["_NC"] = _dialect(N)
                    hn = ctx.inject(h, "_h")
                    W = ctx.execute("CW", f"@dataclass\nclass CW(DataClassDictMixin):\n    x: {hn}\n    class Config(BaseConfig):\n"
                                          f"        code_generation_options = [ADD_DIALECT_SUPPORT]\n")
                    nc = ctx.ns["_NC"]
                    enc = lambda v, W=W, nc=nc: W(v).to_dict(dialect=nc)["x"]   # noqa: E731
                dec = BasicDecoder(h).decode if route == "codec" and N == () else None
            except Exception as e:   # noqa: BLE001
                res.cases += 1
                V("build-failed", route, N, -1, repr(e)[:300], type(e).__name__)
                continue
            res.transitions += 1
            for idx, v in enumerate(vals):
                if only is not None and only[2] != idx:
                    continue
                res.cases += 1
                res.transitions += 1
                before = copy.deepcopy(v)
                r = e1.outcome(enc, v)
                if r[0] == "exc":
                    V("encode-raised", route, N, idx, f"value={v!r:.200} {r[1]!r:.200}", type(r[1]).__name__)
                    continue
                out = r[1]
                if not ref.same(v, before):
                    V("value-mutated", route, N, idx, f"before={before!r:.200} after={v!r:.200}")
                    continue
                cin, cout = containers(v, {}), containers(out, {})
                shared, anyzone = {}, {}
                predict(d, v, set(N), shared, anyzone, ctx)
                actual = {i for i in cin if i in cout and i not in anyzone}
                expect = {i for i in shared if i not in anyzone}
                if actual != expect:
                    extra = [cin[i] for i in actual - expect]
                    missing = [cin[i] for i in expect - actual]
                    oc = "unexpected-sharing" if extra else "missing-sharing"
                    V("sharing-neq-model", route, N, idx,
                      f"value={v!r:.200} shared_but_should_not={extra!r:.200} not_shared_but_listed={missing!r:.200}", oc)
                    res.outcomes[oc] += 1
                    continue
                res.outcomes["ok"] += 1
                if any(len(c) for c in cin.values()):
                    res.nontrivial += 1
                if idx == 1 and len(res.samples) < 1 and expect:
                    res.sample(dict(schema=space.show(d), no_copy=N, route=route, value=repr(v)[:100], shared_containers=len(expect)))
                # ---- decode side (default dialect only): nothing typed is shared with the input, input unchanged
                if dec is not None:
                    try:
                        wire = ref.encode(d, v, ctx, ref.opts())
                    except ref.Reject:
                        continue
                    wb = copy.deepcopy(wire)
                    r2 = e1.outcome(dec, wire)
                    res.transitions += 1
                    if r2[0] == "ok":
                        if not ref.same(wire, wb):
                            V("input-mutated", route, N, idx, f"before={wb!r:.200} after={wire!r:.200}")
                        ci, co = containers(wire, {}), containers(r2[1], {})
                        zone = {}
                        _any_zone_wire(d, wire, zone, ctx)
                        both = [ci[i] for i in ci if i in co and i not in zone]
                        if both:
                            V("decode-shares-input", route, N, idx, f"input={wire!r:.200} shared={both!r:.200}")
    res.states += 1
    return res


def replay(case):
    d = core.detuple(case["desc"])
    return run_unit((d,), only=(case["route"], tuple(case["N"]), case["value_index"])).violations
