"""C11 — Union, Optional and Literal resolution (engine E1 + reference reading of DESIGN.md 4.1)."""
from __future__ import annotations

import copy
import itertools

from vmc import core, e1, foreign, ref, space
from vmc.checks import c03

PROPERTY = "C11"
ENGINE = "E1 schema-space"
RULE = ("all ordered unions of 2 and 3 members over 13 member kinds (every permutation), nested / Optional-of-union / PEP 604 / "
        "constrained TypeVar spellings, as codec shape and as mixin field x inputs (pool u encodings of every member's values): "
        "decode must equal the reference union reading including the raise case; every member value must serialize to its own "
        "member encoding; Literal positions accept exactly values == a listed constant. Non-trivial: the input is accepted by "
        "more than zero members or the union has a non-scalar member that is tried.")
ASSUMPTIONS = [
    "union reading fixed in DESIGN.md 4.1 (declaration order; exact scalar type match; scalar coercion as fallback; None matches only None)",
    "member alphabet and input pool as listed in bounds; Literal alphabets avoid mixing True/1/1.0",
]
UNIT_TIMEOUT = 600
CHUNK = 8

L = space.leaf
DC1 = ("dc", "plain", ((L("int"), "req"),))
DC2 = ("dc", "mixin", ((L("str"), "req"), (L("int"), "dflt")))
MEMBERS = [L("int"), L("float"), L("bool"), L("str"), L("none"), L("date"), ("list", L("int")), ("dict", L("str"), L("int")),
           DC1, DC2, L("literal_str"), L("enum_str"), ("tuple", L("int"), L("str"))]
EXTRA_MEMBERS = [L("timedelta"), L("bytes"), L("newtype_int"), ("annotated", L("str")), L("literal_int"), L("uuid"),
                 ("nt", ((L("int"), False), (L("str"), True))), ("td", ((L("int"), "req"),)), ("set", L("int")), L("decimal")]
LITERALS = [L(n) for n in ("literal_str", "literal_int", "literal_bytes", "literal_enum", "literal_none_str", "literal_bool")]


def bounds(tier):
    return dict(tier=tier, members=[space.show(m) for m in _members(tier)], arities=[2, 3], pool=len(foreign.POOL),
                spellings=["Union", "nested Union", "Optional[Union]", "PEP 604", "TypeVar constraints", "scalar members behind NewType / Annotated chains up to three deep", "recursive PEP 695 aliases (3 member orders x codec / 4 field forms, serialization side)"],
                entry_points=["codec", "mixin"])


def _members(tier):
    return MEMBERS + (EXTRA_MEMBERS if tier == "thorough" else [])


def units(tier):
    ms = _members(tier)
    out = []
    for a, b in itertools.permutations(ms, 2):
        out.append((("union", a, b), tier))
    tri = ms if tier == "thorough" else MEMBERS
    for a, b, c in itertools.permutations(tri if tier == "quick" else MEMBERS, 3):
        out.append((("union", a, b, c), tier))
    if tier == "thorough":
        for e in EXTRA_MEMBERS:
            for a, b in itertools.permutations(MEMBERS[:8], 2):
                out.append((("union", e, a, b), tier))
                out.append((("union", a, e, b), tier))
                out.append((("union", a, b, e), tier))
    # spellings
    for a, b in itertools.permutations(MEMBERS, 2):
        if a == L("none") or b == L("none"):
            continue
        out.append((("opt", ("union", a, b)), tier))
        out.append((("pep604", a, b), tier))
        out.append((("tvconstr", a, b), tier))
        out.append((("union", ("union", a, b), L("uuid")), tier))
        out.append((("optpipe", ("pep604", a, b)), tier))
    # scalar members reached through chains of NewType / Annotated (the exact-type rule looks through all of them)
    scalars = [L("int"), L("float"), L("bool"), L("str")]
    chains = [lambda e: ("newtype", e), lambda e: ("newtype", ("newtype", e)), lambda e: ("annotated", ("newtype", e)),
              lambda e: ("annotated", ("newtype", ("newtype", e))), lambda e: ("newtype", ("newtype", ("newtype", e)))]
    for base in scalars:
        for ch in chains:
            w = ch(base)
            for other in scalars:
                if other != base:
                    out.append((("union", other, w), tier))
                    out.append((("union", w, other), tier))
                    out.append((("union", other, w, ("list", L("int"))), tier))
    # named tuples in their DICT form (namedtuple_as_dict): members that are named tuples with defaults next to dict-shaped members
    NTD = ("nt", ((L("int"), True), (L("str"), True)))          # every field has a default
    NTR = ("nt", ((L("str"), False), (L("int"), True)))
    dictish = [NTD, NTR, ("td", ((L("int"), "req"),)), ("dict", L("str"), L("int")), DC1]
    for a, b in itertools.permutations(dictish, 2):
        out.append((("union", a, b), tier, "nt_as_dict"))
        out.append((("list", ("opt", ("union", a, b))), tier, "nt_as_dict"))
    # recursive unions (PEP 695 aliases that mention themselves): serializing picks the member matching the value at EVERY depth
    for order in RECURSIVE_ORDERS:
        for where in ("codec", "field", "optional_field", "defaulted_none_field", "list_field"):
            out.append((("recalias", order, where), tier))
    # Optional ELEMENTS of a collection that sits in a nullable position itself (Optional field / Optional member): the inner
    # None guard must not depend on the outer one
    # (ordered collections only: the comparison of a set's serialization is order-sensitive and a copied set of dates need not
    # iterate like the original - a harness artefact met when set / frozenset were first included here)
    for coll in ("list", "tuplevar", "deque", "seq"):
        for leaf in ("int", "date", "str", "uuid", "enum_str"):
            inner = (coll, ("opt", L(leaf)))
            out.append((("opt", inner), tier))
            out.append((("list", ("opt", inner)), tier))
            out.append((("union", inner, L("none"), L("bool")), tier))
    for leaf in ("int", "date", "uuid"):
        for m in ("dict", "mapping", "ordered", "chain", "defaultdict"):
            out.append((("opt", (m, L("str"), ("opt", L(leaf)))), tier))
    for lit in LITERALS:
        out.append((lit, tier))
        out.append((("list", lit), tier))
        out.append((("union", lit, L("int")), tier))
        out.append((("opt", lit), tier))
    return out


def _earlier_tuple(d, v, got, ctx, o):
    """The observed output is what a container member declared BEFORE the member the value belongs to produces when its
    packer is applied, duck-typed, to the value: positional indexing for a fixed tuple, `.copy()` / a comprehension for
    list-like members, `.copy()` / an items() comprehension for mappings."""
    ms = ref._flatten_union(d if d[0] != "tvconstr" else ("union",) + tuple(d[1:]))
    for m in ms:
        if ref.conforms(m, v, ctx):
            return False        # reached the value's own member first
        alt = _duck_pack(m, v, ctx, o)
        if alt is not _NO and ref.same(alt, got):
            return True
    return False


_NO = object()
IDENTITY_LEAVES = ("int", "float", "bool", "str", "none", "any")


def _duck_pack(m, v, ctx, o):
    k = m[0]
    try:
        if k in ("tuple", "pep585tuple"):
            return [ref.encode(e, v[i], ctx, o) for i, e in enumerate(m[1:])]
        if k in ("list", "seq", "mutseq", "deque", "set", "frozenset", "abcset", "mutset", "tuplevar"):
            e = m[1]
            if e[0] == "leaf" and e[1] in IDENTITY_LEAVES and k == "list":
                return v.copy()
            return [ref.encode(e, x, ctx, o) for x in v]
        if k in ("dict", "mapping", "mutmapping"):
            if all(x[0] == "leaf" and x[1] in IDENTITY_LEAVES for x in (m[1], m[2])) and k == "dict":
                return v.copy()
            return {ref.encode(m[1], kk, ctx, o): ref.encode(m[2], x, ctx, o) for kk, x in v.items()}
    except Exception:   # noqa: BLE001
        return _NO
    return _NO


RECURSIVE_ORDERS = ("int | str | float | bool | None | list[J] | dict[str, J]", "None | dict[str, J] | list[J] | bool | float | str | int",
                    "list[J] | None | int | dict[str, J] | str")
RECURSIVE_VALUES = [None, 1, "s", [], {}, [None], {"k": None}, [1, None, {"a": None, "b": [None, 2]}], {"x": [{"y": ["s", 1, None]}], "z": None},
                    [[[]]], {"a": {"b": {"c": None}}}]


def run_recursive(unit):
    from mashumaro.codecs.basic import BasicEncoder
    (_, order, where), tier = unit[:2]
    res = core.UnitResult()
    with space.Ctx() as ctx:
        try:
            ctx.run(f"type J = {order}")
            J = ctx.ns["J"]
            if where == "codec":
                enc = BasicEncoder(J).encode
            else:
                ann = {"field": "J", "optional_field": "Optional[J] = None", "defaulted_none_field": "J = None", "list_field": "List[J] = None"}[where]
                W = ctx.execute("RW", f"@dataclass\nclass RW(DataClassDictMixin):\n    x: {ann}\n")
                enc = (lambda v: W([v]).to_dict()["x"][0]) if where == "list_field" else (lambda v: W(v).to_dict()["x"])
        except Exception as e:   # noqa: BLE001
            res.cases += 1
            res.violation(f"build-failed|recalias|{order}|{where}", "build-failed", e1.exc_class(e),
                          dict(desc=("recalias", order, where), tier=tier, entry=where, label=None), repr(e)[:300])
            return res
        for idx, v in enumerate(RECURSIVE_VALUES):
            if "float" not in order and isinstance(v, float):
                continue
            res.cases += 1
            res.transitions += 1
            r = e1.outcome(enc, copy.deepcopy(v))
            if r[0] == "exc":
                res.violation(f"union-encode-raised|recalias|{order}|{where}", "union-encode-raised", e1.exc_class(r[1]),
                              dict(desc=("recalias", order, where), tier=tier, entry=where, label=("enc", idx)), f"value={v!r} {r[1]!r:.200}")
            elif not ref.same(r[1], v):
                res.violation(f"union-encode-neq|recalias|{order}|{where}", "union-encode-neq", "neq",
                              dict(desc=("recalias", order, where), tier=tier, entry=where, label=("enc", idx), facts={}),
                              f"value={v!r} expected the value itself got={r[1]!r:.200}")
            else:
                res.outcomes["encode-ok"] += 1
                res.nontrivial += 1
    res.states += 1
    return res


def run_case(unit, only=None):
    if unit[0][0] == "recalias":
        return run_recursive(unit)
    d, tier = unit[:2]
    as_dict = len(unit) > 2
    res = core.UnitResult()
    with space.Ctx() as ctx:
        h = space.hint(d, ctx)
        vals = space.values(d, ctx)
        o = ref.opts(namedtuple_as_dict=as_dict)
        dd = None
        if as_dict:
            from mashumaro.dialect import Dialect
            dd = type("AsDict", (Dialect,), {"namedtuple_as_dict": True})
        encs = []
        for v in vals:
            try:
                encs.append(ref.encode(d, v, ctx, o))
            except ref.Reject:
                encs.append(None)
        eps = {}
        for ep in ("codec", "mixin"):
            r = e1.outcome(e1.EntryPoints, ep, h, ctx, default_dialect=dd, holder_config={"namedtuple_as_dict": "True"} if as_dict else None)
            res.transitions += 1
            if r[0] == "exc":
                res.violation(f"build-failed|{space.show(d)}|{ep}", "build-failed", e1.exc_class(r[1]),
                              dict(desc=d, tier=tier, entry=ep, label=None, cfg="nt_as_dict" if as_dict else None), repr(r[1]))
                continue
            eps[ep] = r[1]
        # ---- serialize: every member value takes its own member's encoding
        for idx, v in enumerate(vals):
            for ep, E in eps.items():
                if only is not None and only != (ep, ("enc", idx)):
                    continue
                res.cases += 1
                res.transitions += 1
                r = e1.outcome(E.encode, copy.deepcopy(v))
                exp = encs[idx]
                if r[0] == "exc":
                    res.violation(f"union-encode-raised|{space.show(d)}|{ep}", "union-encode-raised", e1.exc_class(r[1]),
                                  dict(desc=d, tier=tier, entry=ep, label=("enc", idx), cfg="nt_as_dict" if as_dict else None), f"value={v!r:.200} {r[1]!r:.200}")
                elif not ref.same(r[1], exp):
                    res.violation(f"union-encode-neq|{space.show(d)}|{ep}", "union-encode-neq", "neq",
                                  dict(desc=d, tier=tier, entry=ep, label=("enc", idx), cfg="nt_as_dict" if as_dict else None,
                                       facts=dict(earlier_fixed_tuple_reproduces=_earlier_tuple(d, v, r[1], ctx, o))),
                                  f"value={v!r:.200} expected={exp!r:.200} got={r[1]!r:.200}")
                else:
                    res.outcomes["encode-ok"] += 1
                    res.nontrivial += 1
        # ---- deserialize: pool u encodings u single substitutions of the first two encodings
        inputs = [(("whole", i), p) for i, p in enumerate(foreign.POOL)]
        inputs += [(("encin", i), e) for i, e in enumerate(encs)]
        for ei, enc in enumerate(encs[:2]):
            for path in [p for p in foreign.positions(enc) if p][:6]:
                for i, p in enumerate(foreign.POOL):
                    inputs.append((("sub", ei, path, i), foreign.replace_at(enc, path, p)))
        for label, x in inputs:
            for ep, E in eps.items():
                if only is not None and only != (ep, label):
                    continue
                res.cases += 1
                res.transitions += 1
                verdict, clause, out, detail, exp, r = c03.judge(d, copy.deepcopy(x), ctx, o, E.decode)
                res.outcomes[f"{exp[0]}/{r[0]}"] += 1
                if verdict == "viol":
                    facts = dict(none_fallback_reproduces=c03._alt_reproduces(d, x, ctx, r, none_in_fallback=True, namedtuple_as_dict=as_dict),
                                 union3_with_none=ref.has_union3_with_none(d))
                    res.violation(f"union-{clause}|{space.show(d)}|{ep}|{out}", "union-" + clause, out,
                                  dict(desc=d, tier=tier, entry=ep, label=label, facts=facts, cfg="nt_as_dict" if as_dict else None), detail)
                else:
                    res.nontrivial += 1
                    if label[0] == "whole" and exp[0] == "value" and len(res.samples) < 1:
                        res.sample(dict(schema=space.show(d), input=repr(x)[:80], result=repr(exp[1])[:80]))
    res.states += 1
    return res


run_unit = run_case


def replay(case):
    label = case["label"]
    if case["desc"][0] == "recalias":
        vs = run_recursive((tuple(case["desc"]), case["tier"])).violations
        return [v for v in vs if tuple(v["case"]["label"]) == tuple(label)]
    res = run_case((core.detuple(case["desc"]), case["tier"]) + (("nt_as_dict",) if case.get("cfg") else ()),
                   only=(case["entry"], core.detuple(label)) if label is not None else None)
    return res.violations
