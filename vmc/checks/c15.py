"""C15 — All entry points agree (E1 relational + E2 histories)."""
from __future__ import annotations

import copy
import inspect
import dataclasses
import json

from vmc import core, e1, family, formats, hist, ref, space

PROPERTY = "C15"
ENGINE = "E1 schema-space + E2 histories"
RULE = ("(a) every schema of the bounded grammar wrapped in a plain and a mixin dataclass D x every value: mixin methods, BasicEncoder/"
        "Decoder, one-shot functions, D inside List / Dict / Tuple / Optional, D as a field of an outer mixin class and the JSON / YAML / "
        "MessagePack / orjson codecs (parsed back) must give `same` results, composite codec == element codec elementwise; "
        "(b) BFS over histories of {create codec for D / List[D] / Outer, define a subclass of D, encode, decode, to_dict, from_dict}: "
        "every operation's result equals the result on a fresh family. Non-trivial: value whose encoding differs from it / a transition "
        "from a non-initial state.")
ASSUMPTIONS = ["hooks are C19's business and are not declared on the classes used here",
               "format codecs are compared after parsing with the format's own library (json, yaml, msgpack, orjson)"]
UNIT_TIMEOUT = 900
CHUNK = 4
RECLIMIT = 1000


def bounds(tier):
    return dict(tier=tier, schemas=len(_schemas(tier)), variants=["plain", "mixin"],
                encode_paths=["mixin.to_dict", "BasicEncoder(D)", "encode(x, D)", "List[D]", "Dict[str, D]", "Tuple[D, int]", "Optional[D]",
                              "Outer.f", "json", "yaml", "msgpack", "orjson"],
                history_depth=3 if tier == "quick" else 4)


def _schemas(tier):
    maxd = 1 if tier == "quick" else 2
    return [d for d in space.schemas(tier) if space.depth(d) <= maxd]


def units(tier):
    out = [("rel", d, variant) for d in _schemas(tier) for variant in ("plain", "mixin")]
    for variant in ("plain", "mixin", "lazy"):
        out.append(("hist", variant, 3 if tier == "quick" else 4))
    # one-shot functions called one after the other with shape types that are EQUAL as Python objects but different shapes for the
    # library: unions with the same members in another order
    import itertools
    for a, b in itertools.combinations(PAIR_MEMBERS, 2):
        for spelling in ("union", "optional", "list", "dict"):
            out.append(("pairs", a, b, spelling))
    return out


PAIR_MEMBERS = ("date", "str", "int", "float", "bool", "list_str", "list_int")


# ------------------------------------------------------------------------------------------------
def run_rel(unit, only=None):
    import typing
    from mashumaro.codecs import basic
    _, d, variant = unit
    res = core.UnitResult()
    D_desc = ("dc", variant, ((d, "req"),))
    fmt_ok = not any(l in ("any", "sertype") for l in space.leaves_of(d))

    def V(clause, path, idx, detail):
        res.violation(f"{clause}|{space.show(d)}|{variant}|{path}", clause, path, dict(unit=unit, path=path, value_index=idx), detail)

    with space.Ctx() as ctx:
        D = space.hint(D_desc, ctx)
        vals = space.values(D_desc, ctx)
        ctx.ns["_D"] = D
        Outer = ctx.execute("Outer", "@dataclass\nclass Outer(DataClassDictMixin):\n    f: _D\n    g: int = 1\n")
        T = typing
        try:
            encs = {
                "codec": basic.BasicEncoder(D).encode,
                "oneshot": lambda x: basic.encode(x, D),
                "list": lambda x, e=basic.BasicEncoder(T.List[D]).encode: e([x])[0],
                "dict": lambda x, e=basic.BasicEncoder(T.Dict[str, D]).encode: e({"k": x})["k"],
                "tuple": lambda x, e=basic.BasicEncoder(T.Tuple[D, int]).encode: e((x, 1))[0],
                "optional": basic.BasicEncoder(T.Optional[D]).encode,
                "outer": lambda x: Outer(f=x).to_dict()["f"],
            }
            decs = {
                "codec": basic.BasicDecoder(D).decode,
                "oneshot": lambda x: basic.decode(x, D),
                "list": lambda x, e=basic.BasicDecoder(T.List[D]).decode: e([x])[0],
                "dict": lambda x, e=basic.BasicDecoder(T.Dict[str, D]).decode: e({"k": x})["k"],
                "tuple": lambda x, e=basic.BasicDecoder(T.Tuple[D, int]).decode: e([x, 1])[0],
                "optional": basic.BasicDecoder(T.Optional[D]).decode,
                "outer": lambda x: Outer.from_dict({"f": x}).f,
            }
            # a second, different dataclass next to D in one fixed tuple (both orders): each position is its own element codec
            import datetime as _dt
            ctx.ns["_date"] = _dt.date
            Other = ctx.execute("OtherDC", "@dataclass\nclass OtherDC:\n    f0: _date\n    extra: str = 'n'\n")
            other = Other(_dt.date(2023, 5, 6), "e")
            other_wire = basic.BasicEncoder(Other).encode(other)
            t_do, t_od = basic.BasicEncoder(T.Tuple[D, Other]).encode, basic.BasicEncoder(T.Tuple[Other, D]).encode
            encs["tuple2-first"] = lambda x: t_do((x, other))[0]
            encs["tuple2-last"] = lambda x: t_od((other, x))[1]
            sibling = {"tuple2-first": lambda x: t_do((x, other))[1], "tuple2-last": lambda x: t_od((other, x))[0]}
            d_do, d_od = basic.BasicDecoder(T.Tuple[D, Other]).decode, basic.BasicDecoder(T.Tuple[Other, D]).decode
            decs["tuple2-first"] = lambda x: d_do([x, copy.deepcopy(other_wire)])[0]
            decs["tuple2-last"] = lambda x: d_od([copy.deepcopy(other_wire), x])[1]
            dsibling = {"tuple2-first": lambda x: d_do([x, copy.deepcopy(other_wire)])[1], "tuple2-last": lambda x: d_od([copy.deepcopy(other_wire), x])[0]}
            if variant == "mixin":
                encs["mixin"] = lambda x: x.to_dict()
                decs["mixin"] = D.from_dict
            fencs, fdecs, fencs_e, fdecs_e = {}, {}, {}, {}
            if fmt_ok:
                for fmt in ("json", "yaml", "msgpack", "orjson"):
                    E, Dc = formats.codecs(fmt)
                    fencs[fmt] = E(D).encode
                    fdecs[fmt] = Dc(D).decode
                    if "default_dialect" in inspect.signature(E.__init__).parameters:
                        # a Dialect that sets nothing is the same entry point spelled differently
                        fencs_e[fmt] = E(D, default_dialect=_EmptyDialect).encode
                        fdecs_e[fmt] = Dc(D, default_dialect=_EmptyDialect).decode
        except Exception as e:   # noqa: BLE001
            res.cases += 1
            V("build-failed", "build", -1, repr(e)[:300])
            return res
        res.transitions += len(encs) + len(decs)
        for idx, v in enumerate(vals):
            if only is not None and idx != only:
                continue
            base = e1.outcome(encs["codec"], v)
            res.cases += 1
            for path, fn in encs.items():
                res.transitions += 1
                r = e1.outcome(fn, v)
                if r[0] != base[0] or (r[0] == "ok" and not ref.same(r[1], base[1])) or \
                        (r[0] == "exc" and type(r[1]) is not type(base[1])):
                    V("encode-paths-disagree", path, idx, f"value={v!r:.200} codec={_sh(base)} {path}={_sh(r)}")
                    res.outcomes["encode-disagree"] += 1
            if base[0] != "ok":
                res.outcomes["encode-raised"] += 1
                continue
            for path, fn in sibling.items():
                r = e1.outcome(fn, v)
                if r[0] != "ok" or not ref.same(r[1], other_wire):
                    V("encode-paths-disagree", path + "-sibling", idx, f"the OTHER dataclass of the tuple: element codec={other_wire!r} {path}={_sh(r)}")
            enc = base[1]
            if not ref.same(enc, v):
                res.nontrivial += 1
            bdec = e1.outcome(decs["codec"], copy.deepcopy(enc))
            for path, fn in decs.items():
                res.transitions += 1
                r = e1.outcome(fn, copy.deepcopy(enc))
                if r[0] != bdec[0] or (r[0] == "ok" and not ref.same(r[1], bdec[1])) or \
                        (r[0] == "exc" and type(r[1]) is not type(bdec[1])):
                    V("decode-paths-disagree", path, idx, f"input={enc!r:.200} codec={_sh(bdec)} {path}={_sh(r)}")
                    res.outcomes["decode-disagree"] += 1
            if bdec[0] == "ok":
                for path, fn in dsibling.items():
                    r = e1.outcome(fn, copy.deepcopy(enc))
                    if r[0] != "ok" or r[1] != other:
                        V("decode-paths-disagree", path + "-sibling", idx, f"the OTHER dataclass of the tuple: expected {other!r} {path}={_sh(r)}")
            # format codecs: same logical document, same decoded value (inside the format's representable subset)
            for fmt, fn in fencs.items():
                res.transitions += 2
                r = e1.outcome(fn, v)
                if r[0] != "ok":
                    res.counters[f"format_unrepresentable_{fmt}"] += 1
                    continue
                try:
                    parsed = formats.parse(fmt, r[1])
                except Exception:   # noqa: BLE001
                    res.counters[f"format_unparseable_{fmt}"] += 1
                    continue
                back = e1.outcome(fdecs[fmt], r[1])
                if fmt in fencs_e:
                    res.transitions += 2
                    r_e = e1.outcome(fencs_e[fmt], v)
                    if r_e[0] != "ok" or type(r_e[1]) is not type(r[1]) or r_e[1] != r[1]:
                        V("format-empty-dialect-differs", fmt, idx, f"value={v!r:.150} plain={_sh(r)} with an empty default_dialect={_sh(r_e)}")
                    back_e = e1.outcome(fdecs_e[fmt], r[1])
                    if back_e[0] != back[0] or (back[0] == "ok" and not ref.same(back_e[1], back[1])):
                        V("format-empty-dialect-differs", fmt + "-decode", idx, f"input={r[1]!r:.150} plain={_sh(back)} with an empty default_dialect={_sh(back_e)}")
                native = fmt == "msgpack" and any(l in ("bytes", "bytearray", "literal_bytes") for l in space.leaves_of(d))
                if fmt in ("json", "msgpack", "yaml") and not native and _plain_json(enc) and not _loose_eq(parsed, enc, fmt):
                    V("format-document-differs", fmt, idx, f"value={v!r:.150} basic={enc!r:.150} parsed={parsed!r:.150}")
                if native and space.has_kind(d, {"union", "pep604", "tvconstr", "opt", "optpipe"}):
                    # msgpack passes bytes through on both sides, so WHICH union member accepts a given text differs from the base64
                    # reading of the basic codec by the documented union resolution itself (as in C04)
                    res.counters["skipped_union_with_native_bytes"] += 1
                elif back[0] == "ok" and bdec[0] == "ok" and _plain_json(enc) and not (
                        ref.canon_unordered(back[1]) == ref.canon_unordered(bdec[1]) if fmt == "yaml"
                        else ref.same(back[1], bdec[1], dict_order=False)):
                    V("format-decode-differs", fmt, idx, f"value={v!r:.150} basic={_sh(bdec)} {fmt}={_sh(back)}")
            res.outcomes["ok"] += 1
            if idx == 0:
                res.sample(dict(schema=space.show(d), variant=variant, paths=len(encs) + len(decs) + 2 * len(fencs),
                                encoded=repr(enc)[:100]), cap=1)
    res.states += 1
    return res


def _empty_dialect():
    from mashumaro.dialect import Dialect

    class EmptyDialect(Dialect):
        pass
    return EmptyDialect


_EmptyDialect = _empty_dialect()


def _sh(r):
    return f"{r[0]}:{r[1]!r:.160}"


def _plain_json(x):
    """Documents every format carries losslessly: string keys, 64-bit ints, finite floats."""
    if isinstance(x, dict):
        return all(isinstance(k, str) and _plain_json(v) for k, v in x.items())
    if isinstance(x, list):
        return all(_plain_json(v) for v in x)
    if isinstance(x, bool) or x is None or isinstance(x, str):
        return True
    if isinstance(x, int):
        return -2 ** 63 <= x < 2 ** 63
    if isinstance(x, float):
        return x == x and abs(x) != float("inf")
    return False


def _loose_eq(parsed, enc, fmt):
    if fmt == "yaml":
        return _unordered(parsed) == _unordered(enc)
    return parsed == enc


def _unordered(x):
    if isinstance(x, dict):
        return {k: _unordered(v) for k, v in x.items()}
    if isinstance(x, list):
        return [_unordered(v) for v in x]
    return x


# ------------------------------------------------------------------------------------------------
class HFam:
    def __init__(self, variant):
        self.ctx = space.Ctx()
        ns = self.ctx.ns
        ns["date"] = family.date
        base = "" if variant == "plain" else "(DataClassDictMixin)"
        cfg = "    class Config(BaseConfig):\n        lazy_compilation = True\n" if variant == "lazy" else ""
        self.ctx.run("@dataclass\nclass In:\n    a: date\n    z: Optional[int] = None\n")
        self.ctx.run(f"@dataclass\nclass D{base}:\n    i: In\n    d: date\n    xs: List[int] = field(default_factory=list)\n{cfg}")
        self.ctx.run("@dataclass\nclass Outer(DataClassDictMixin):\n    f: D\n    g: int = 1\n")
        self.variant = variant
        self.codecs = {}      # shape name -> list of (encoder, decoder)
        self.sub = False

    def shape(self, name):
        import typing
        ns = self.ctx.ns
        return {"D": ns["D"], "ListD": typing.List[ns["D"]], "Outer": ns["Outer"], "OptD": typing.Optional[ns["D"]]}[name]

    def value(self):
        ns = self.ctx.ns
        return ns["D"](ns["In"](family.date(2021, 3, 4), 5), family.date(2020, 1, 2), [1, 2])

    def dispose(self):
        self.ctx.close()


class HModel:
    SHAPES = ("D", "ListD", "Outer")

    def __init__(self, variant):
        self.variant = variant
        self._exp = {}
        self.ops = [("create", s) for s in self.SHAPES] + [("subclass",)] + \
                   [("encode", s) for s in self.SHAPES] + [("decode", s) for s in self.SHAPES] + [("new+encode", "D"), ("new+decode", "ListD")]
        # the same with a codec default_dialect: codecs with different dialects must not influence each other
        self.ops += [("create", "D", "D1"), ("create", "ListD", "D1"), ("encode", "D", "D1"), ("decode", "D", "D1"),
                     ("new+encode", "ListD", "D1"), ("new+decode", "D", "D1")]
        if variant != "plain":
            self.ops += [("to_dict",), ("from_dict",)]
        self.ops += [("outer_to_dict",), ("outer_from_dict",)]

    def initial(self):
        return HFam(self.variant)

    def dispose(self, f):
        f.dispose()

    def enabled(self, h):
        return self.ops

    def _wrap(self, f, shape, v):
        ns = f.ctx.ns
        return {"D": v, "ListD": [v, v], "Outer": ns["Outer"](v, 2) if shape == "Outer" else None}[shape]

    WIRE = {"i": {"a": "2021-03-04", "z": 5}, "d": "2020-01-02", "xs": [1, 2]}

    def _wire(self, shape):
        w = copy.deepcopy(self.WIRE)
        return {"D": w, "ListD": [w, copy.deepcopy(w)], "Outer": {"f": w, "g": 2}}[shape]

    def apply(self, f, op):
        from mashumaro.codecs.basic import BasicDecoder, BasicEncoder
        ns = f.ctx.ns
        try:
            dl = family.dialects()[op[2]] if len(op) > 2 else None
            ckey = op[1] if len(op) > 1 and len(op) <= 2 else (op[1] + "/" + op[2] if len(op) > 2 else None)
            if op[0] == "create":
                sh = f.shape(op[1])
                f.codecs.setdefault(ckey, []).append((BasicEncoder(sh, default_dialect=dl), BasicDecoder(sh, default_dialect=dl)))
                return ("ok", "created")
            if op[0] == "subclass":
                if not f.sub:
                    f.ctx.run("@dataclass\nclass DSub(D):\n    extra: int = 7\n")
                    f.sub = True
                return ("ok", "defined")
            if op[0] in ("encode", "decode", "new+encode", "new+decode"):
                shape = op[1]
                if op[0].startswith("new+") or not f.codecs.get(ckey):
                    sh = f.shape(shape)
                    pair = (BasicEncoder(sh, default_dialect=dl), BasicDecoder(sh, default_dialect=dl))
                else:
                    pair = f.codecs[ckey][0]      # the OLDEST codec: it must keep working
                if op[0].endswith("encode"):
                    return ("ok", family.normalise(pair[0].encode(self._wrap(f, shape, f.value()))))
                wire = self._wire(shape)
                if dl is not None:
                    wire = json.loads(json.dumps(wire).replace("2021-03-04", "2021/03/04").replace("2020-01-02", "2020/01/02"))
                return ("ok", family.normalise(pair[1].decode(wire)))
            if op[0] == "to_dict":
                return ("ok", family.normalise(f.value().to_dict()))
            if op[0] == "from_dict":
                return ("ok", family.normalise(ns["D"].from_dict(self._wire("D"))))
            if op[0] == "outer_to_dict":
                return ("ok", family.normalise(ns["Outer"](f.value(), 2).to_dict()))
            if op[0] == "outer_from_dict":
                return ("ok", family.normalise(ns["Outer"].from_dict(self._wire("Outer"))))
        except RecursionError:
            return ("exc", "RecursionError")
        except Exception as e:   # noqa: BLE001
            return ("exc", type(e).__name__, str(e)[:100])
        raise ValueError(op)

    def expected(self, h, op):
        if op not in self._exp:
            f = self.initial()
            try:
                self._exp[op] = self.apply(f, op)
            finally:
                f.dispose()
        return self._exp[op]

    def canon(self, f):
        ns = f.ctx.ns
        st = [tuple(sorted((k, min(len(v), 2)) for k, v in f.codecs.items())), f.sub]
        for c in ("D", "In", "Outer", "DSub"):
            if c in ns:
                st.append((c, hist.class_state(ns[c])))
        return tuple(st)


def run_hist(unit, only=None):
    _, variant, depth = unit
    res = core.UnitResult()
    model = HModel(variant)
    if only is not None:
        h, op = only
        f = hist.rebuild(model, h)
        try:
            got = model.apply(f, op)
        finally:
            f.dispose()
        exp = model.expected(h, op)
        if got != exp:
            res.violation("replay", "history-dependent", got[1] if got[0] == "exc" else "value", dict(unit=unit, history=h, op=op),
                          f"got={got!r:.300} expected={exp!r:.300}")
        return res
    r = hist.bfs(model, depth)
    res.cases = res.transitions = r.transitions
    res.states = r.states
    res.capped = r.capped
    res.outcomes.update(r.outcomes)
    res.counters["states_with_multiple_predecessors"] += r.multi_pred
    res.counters["max_depth_completed"] = r.max_depth + 1
    res.nontrivial = max(0, r.transitions - len(model.ops))
    for (h, op, got, exp) in r.violations:
        oc = got[1] if got[0] == "exc" else "value"
        res.violation(f"history-dependent|{variant}|{op}|{oc}", "history-dependent", str(oc)[:60], dict(unit=unit, history=h, op=op),
                      f"history={h!r} op={op!r} got={got!r:.300} expected={exp!r:.300}")
    for s in r.samples[:1]:
        res.sample(dict(variant=variant, **s))
    return res


def run_pairs(unit):
    import datetime
    import typing
    from mashumaro.codecs import basic
    _, a, b, spelling = unit
    res = core.UnitResult()
    T = {"date": datetime.date, "str": str, "int": int, "float": float, "bool": bool, "list_str": typing.List[str], "list_int": typing.List[int]}
    inputs = ["2020-01-02", "1", 1, 1.5, True, ["1"], [2]]
    values = [datetime.date(2020, 1, 2), "1", 1, 1.5, True, ["1"], [2]]

    def shape(x, y):
        u = typing.Union[x, y]
        return {"union": u, "optional": typing.Optional[u], "list": list[u], "dict": dict[str, u]}[spelling]

    def wrap(v):
        return {"union": v, "optional": v, "list": [v], "dict": {"k": v}}[spelling]
    with space.Ctx():
        S1, S2 = shape(T[a], T[b]), shape(T[b], T[a])
        res.counters["shapes_equal_as_python_objects"] += int(S1 == S2)
        for order in ((S1, S2), (S2, S1)):
            for S in order:          # the second shape is used right after the first one
                res.cases += 1
                for x in inputs:
                    res.transitions += 2
                    want = e1.outcome(basic.BasicDecoder(S).decode, wrap(copy.deepcopy(x)))
                    got = e1.outcome(lambda: basic.decode(wrap(copy.deepcopy(x)), S))
                    if want[0] != got[0] or (want[0] == "ok" and not ref.same(want[1], got[1])):
                        res.violation(f"decode-paths-disagree|pairs|{a}|{b}|{spelling}", "decode-paths-disagree", "oneshot",
                                      dict(unit=unit, path="oneshot", value_index=-1),
                                      f"shape={S} input={wrap(x)!r}: BasicDecoder -> {_sh(want)}, decode() -> {_sh(got)} "
                                      f"(after a one-shot call with {order[0] if S is order[1] else 'nothing'})")
                    else:
                        res.outcomes["ok"] += 1
                        res.nontrivial += 1
                for v in values:
                    res.transitions += 2
                    want = e1.outcome(basic.BasicEncoder(S).encode, wrap(v))
                    got = e1.outcome(lambda: basic.encode(wrap(v), S))
                    if want[0] != got[0] or (want[0] == "ok" and not ref.same(want[1], got[1])):
                        res.violation(f"encode-paths-disagree|pairs|{a}|{b}|{spelling}", "encode-paths-disagree", "oneshot",
                                      dict(unit=unit, path="oneshot", value_index=-1),
                                      f"shape={S} value={wrap(v)!r}: BasicEncoder -> {_sh(want)}, encode() -> {_sh(got)}")
                    else:
                        res.outcomes["ok"] += 1
    res.states += 1
    return res


def run_unit(unit):
    if unit[0] == "pairs":
        return run_pairs(unit)
    return run_rel(unit) if unit[0] == "rel" else run_hist(unit)


def replay(case):
    u = core.detuple(case["unit"])
    if u[0] == "pairs":
        return run_pairs(tuple(u)).violations
    if u[0] == "rel":
        vs = run_rel(u, only=case["value_index"] if case["value_index"] >= 0 else None).violations
        return [v for v in vs if v["case"]["path"] == case["path"]]
    h = tuple(tuple(o) for o in core.detuple(case["history"]))
    return run_hist(u, only=(h, tuple(core.detuple(case["op"])))).violations
