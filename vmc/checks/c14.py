"""C14 — Behaviour is independent of compilation timing, call order and threads.

(a) engine E2: BFS over call histories on fresh class families in eager / lazy / postponed mode,
    differential oracle = the same call on a fresh eager twin.
(b) engine E3: all interleavings of 2-3 first calls up to a preemption bound (vmc/sched.py).
"""
from __future__ import annotations

from vmc import core, family, hist

PROPERTY = "C14"
ENGINE = "E2 histories + E3 schedules"
RULE = ("(a) every history up to the depth bound over the alphabet {to_dict, from_dict, to_jsonb, from_json, to_msgpack, from_msgpack} x "
        "{no dialect, D1, D2} x classes of 8 families x {eager, lazy, postponed} x dialect support on/off: every call's outcome must equal "
        "the same call on a fresh eager twin; RecursionError / AttributeError on internals are violations. (b) every interleaving of the "
        "first calls of 2-3 threads up to the preemption bound: every thread's outcome, and one further sequential call afterwards, must "
        "equal the eager twin's. Non-trivial: a transition taken from a non-initial canonical state, or a schedule with >= 1 preemption.")
ASSUMPTIONS = [
    "atomic step of the scheduler = one line of generated code or the stretch between two traced library calls (DESIGN.md 5.3); "
    "in the `fine` units also the stretch between two library source lines that touch shared state (AST scan, sched.fine_lines)",
    "families, dialects and instances as in vmc/family.py; CPython 3.12.1",
]
UNIT_TIMEOUT = 1500
RECLIMIT = 170
MODES = ("eager", "lazy", "postponed")


def bounds(tier):
    return dict(tier=tier, families=list(family.FAMILIES), modes=list(MODES), dialect_support=[False, True],
                history_depth=3 if tier == "quick" else 4, schedules=sched_bounds(tier))


def sched_bounds(tier):
    return dict(threads=[2, 3], preemption_bound_2_threads=1 if tier == "quick" else 2, preemption_bound_3_threads=1,
                fine_points="library lines touching shared state (sched.fine_lines), bound 1: " +
                            ("5 harnesses" if tier == "quick" else "every two-thread harness"))


def units(tier):
    out = []
    for fam in family.FAMILIES:
        for mode in MODES:
            for support in (False, True):
                if tier == "quick":
                    out.append(("hist", fam, mode, support, 3))
                else:
                    # one search per first operation: balanced units, bounded memory
                    n = len(family.ops_for(fam, support)) + (1 if fam == "deep" else 0)
                    out += [("hist", fam, mode, support, 4, i) for i in range(n)]
    try:
        from vmc.checks import c14_sched
        out += c14_sched.units(tier)
    except ImportError:
        pass
    return out


class Model:
    def __init__(self, fam, mode, support):
        self.fam, self.mode, self.support = fam, mode, support
        self.alphabet = family.ops_for(fam, support)
        self._exp, self._inp = {}, {}
        D = family.dialects()
        self.roles = {D[k]: k for k in D if D[k] is not None}

    def initial(self):
        # "deep": the last class (Note) is defined by an operation of the history
        return family.Family(self.fam, self.mode, self.support, defer=1 if self.fam == "deep" else 0)

    def dispose(self, f):
        f.dispose()

    def enabled(self, h):
        if self.fam == "deep" and not any(op[0] == "define" for op in h):
            return self.alphabet + [("define", "n", "Note")]
        return self.alphabet

    def input_for(self, op):
        kind, dl, role = op
        if kind.startswith("to_") or kind == "define":
            return None
        if op not in self._inp:
            twin = family.Family(self.fam, "eager", self.support)
            try:
                self._inp[op] = family.raw_output(twin, (family.PAIR[kind], dl, role))
            finally:
                twin.dispose()
        return self._inp[op]

    def apply(self, f, op):
        return family.run_op(f, op, self.input_for(op))

    def expected(self, h, op):
        if op[0] == "define":
            return ("ok", "defined")
        if op not in self._exp:
            twin = family.Family(self.fam, "eager", self.support)
            try:
                self._exp[op] = family.run_op(twin, op, self.input_for(op))
            finally:
                twin.dispose()
        return self._exp[op]

    def canon(self, f):
        return tuple((r, hist.class_state(c, self.roles)) for r, c in sorted(f.classes().items()))


def run_hist(unit, only=None):
    _, fam, mode, support, depth = unit[:5]
    first = unit[5] if len(unit) > 5 else None
    res = core.UnitResult()
    model = Model(fam, mode, support)
    if only is not None:
        h, op = only
        f = hist.rebuild(model, h)
        try:
            got = model.apply(f, op)
        finally:
            f.dispose()
        exp = model.expected(h, op)
        if got != exp:
            res.violation("replay", "outcome-neq-twin", got[1] if got[0] == "exc" else "value",
                          dict(unit=unit, history=h, op=op), f"got={got!r:.300} expected={exp!r:.300}")
        return res
    r = hist.bfs(model, depth, first=first)
    res.cases = r.transitions
    res.transitions = r.transitions
    res.states = r.states
    res.capped = r.capped
    res.outcomes.update(r.outcomes)
    res.counters["states_with_multiple_predecessors"] += r.multi_pred
    res.counters["max_depth_completed"] = max(res.counters["max_depth_completed"], r.max_depth + 1)
    res.nontrivial = max(0, r.transitions - (len(model.alphabet) if first is None else 1))
    for (h, op, got, exp) in r.violations:
        oc = got[1] if got[0] == "exc" else "value"
        first = (op if not h else h[0])
        res.violation(f"outcome-neq-twin|{fam}|{mode}|{support}|{op}|{oc}|{len(h)}", "outcome-neq-twin", oc,
                      dict(unit=unit, history=h, op=op), f"history={h!r} op={op!r} got={got!r:.300} expected={exp!r:.300}")
    for s in r.samples[:1]:
        res.sample(dict(family=fam, mode=mode, dialect_support=support, **s))
    return res


def run_unit(unit):
    if unit[0] == "hist":
        return run_hist(unit)
    from vmc.checks import c14_sched
    return c14_sched.run_unit(unit)


def replay(case):
    unit = core.detuple(case["unit"])
    if unit[0] == "hist":
        h = tuple(tuple(o) for o in core.detuple(case["history"]))
        return run_hist(unit, only=(h, tuple(core.detuple(case["op"])))).violations
    from vmc.checks import c14_sched
    return c14_sched.replay(case)
