"""C19 — Hooks run exactly once per instance, in order, through every entry point (engine E1)."""
from __future__ import annotations

import dataclasses
import itertools
import json
import re

from vmc import core, formats, space

PROPERTY = "C19"
ENGINE = "E1 schema-space"
RULE = ("every dataclass tree of depth 2 and 3 (child in a field, List, Dict value, Optional, Tuple, Union at each member position, nested "
        "list of unions, variants of a class-level discriminator hierarchy that inherit the hooks and are reached through the base) whose classes all carry the four hooks x ADD_SERIALIZATION_CONTEXT opt-in masks x class kind (mixin / plain) x entry "
        "points (mixin, Basic codec, JSON / orjson / msgpack / yaml codecs, orjson and msgpack mixins) x leaf member values: the serialize "
        "hook trace must equal the pre/post-order traversal, hook return values must be used exactly once (each hook leaves one mark), the "
        "post-deserialize multiset must equal the instances of the result, pre- before post-deserialize, and the context object must reach "
        "exactly the opted-in nodes whose ancestors all opted in. Non-trivial: the tree has >= 2 hooked instances.")
ASSUMPTIONS = ["hooks mark their effect: pre_serialize appends '!' to tag, post_serialize counts in '_post', pre_deserialize appends '?', "
               "post_deserialize appends '$'", "context is only passable through mixin to_dict (codecs have no context argument)",
               "discriminator-hierarchy shapes: codec encoders and format-mixin to_<format> methods serialize a field by its annotated class, so these entry points are exercised on "
               "the deserialization side only there, on the document prescribed by the marks"]
UNIT_TIMEOUT = 600
CHUNK = 4
SHAPES = ("direct", "list", "dict", "opt", "tuple", "unionAB", "unionBA", "listunion", "unionint")
# leaf classes as variants of a class-level discriminator hierarchy that inherit the four hooks from its base, reached through the base
DSHAPES = ("dbase", "dlist")
# "lazy": every class has lazy_compilation (the first call goes through a stub); "postponed": Root refers to its child by a forward
# reference that is unresolved when Root is created
KINDS = ("mixin", "plain", "orjson", "msgpack", "lazy", "postponed")


def bounds(tier):
    return dict(tier=tier, shapes=list(SHAPES + DSHAPES), depths=[2, 3], class_kinds=list(KINDS), context_masks="all subsets of {Root, Mid, A, B}",
                other_flags=["nested classes only", "root only", "mixed"],
                entry_points=["mixin", "basic", "json", "orjson", "msgpack", "yaml", "orjson-mixin", "msgpack-mixin"])


def units(tier):
    out = []
    for kind in KINDS:
        for s1 in SHAPES + DSHAPES:
            for mask in range(8):      # Root, A, B opt-in bits
                if s1 in DSHAPES and bool(mask & 2) != bool(mask & 4):
                    continue           # the variants inherit hooks and opt-in from one base
                out.append((kind, 2, s1, None, mask))
        for s1, s2 in itertools.product(SHAPES, SHAPES + DSHAPES):
            masks = range(16) if tier == "thorough" else (0, 15, 9, 5)
            for mask in masks:        # Root, Mid, A, B
                if s2 in DSHAPES and bool(mask & 4) != bool(mask & 8):
                    continue
                out.append((kind, 3, s1, s2, mask))
    # other keyword flags enabled on some of the classes only (nested-only, root-only, mixed)
    for s1 in SHAPES:
        for extra in (1, 2, 3):
            out.append(("mixin", 2, s1, None, 7, extra))
            out.append(("mixin", 3, s1, "direct", 15, extra))
            out.append(("mixin", 3, "list", s1, 15, extra))
    # extra == 4: the intermediate class opted in to the context but declares NO hooks of its own; the context must pass through it
    for kind in ("mixin", "msgpack", "lazy"):
        for s1 in ("direct", "list", "dict", "opt"):
            for s2 in SHAPES + DSHAPES:
                out.append((kind, 3, s1, s2, 15, 4))
    # classes WITHOUT fields (markers, payload-less messages): their hooks cannot mark a field, they log into a trace
    for kind in ("mixin", "plain", "orjson", "msgpack", "lazy"):
        for where in ("own", "inherited"):
            for pos in ("direct", "field", "list", "optional", "dictvalue"):
                out.append(("fieldless", kind, where, pos, 0))
    return out


def run_fieldless(unit, only=None):
    """An empty dataclass E (all four hooks, declared by E or inherited from a plain hooks base) alone, as a field, list element,
    Optional field and dict value of a holder H that has the hooks too: every (de)serialization runs pre then post exactly once
    per instance, holder around children."""
    from vmc import space
    _, kind, where, pos, _ = unit
    res = core.UnitResult()
    base = {"mixin": "DataClassDictMixin", "plain": "", "orjson": "DataClassORJSONMixin", "msgpack": "DataClassMessagePackMixin",
            "lazy": "DataClassDictMixin"}[kind]
    hooks = ("    @classmethod\n    def __pre_deserialize__(cls, d):\n        TRACE.append(('pre_d', cls.__name__)); return d\n"
             "    @classmethod\n    def __post_deserialize__(cls, obj):\n        TRACE.append(('post_d', cls.__name__)); return obj\n"
             "    def __pre_serialize__(self):\n        TRACE.append(('pre_s', type(self).__name__)); return self\n"
             "    def __post_serialize__(self, d):\n        TRACE.append(('post_s', type(self).__name__)); return d\n")
    cfg = "    class Config(BaseConfig):\n        lazy_compilation = True\n" if kind == "lazy" else ""
    src = ("from mashumaro.mixins.orjson import DataClassORJSONMixin\nfrom mashumaro.mixins.msgpack import DataClassMessagePackMixin\n"
           "TRACE = []\nclass Hooks:\n" + hooks)
    ebases = [b for b in ("Hooks" if where == "inherited" else "", base) if b]     # Hooks first: the mixin defines no-op hooks itself
    src += "@dataclass\nclass E" + (f"({', '.join(ebases)})" if ebases else "") + ":\n" + (hooks if where == "own" else "") + (cfg or ("    pass\n" if where != "own" else ""))
    ftype = {"direct": None, "field": "E", "list": "List[E]", "optional": "Optional[E]", "dictvalue": "Dict[str, E]"}[pos]
    hb = base or "DataClassDictMixin"       # the holder is always a mixin (a plain E is reached through it)
    if ftype is not None or kind == "plain":
        src += f"@dataclass\nclass H({hb}):\n    x: {ftype or 'E'}\n" + hooks + cfg
    with space.Ctx() as ctx:
        try:
            ctx.run(src)
        except Exception as e:   # noqa: BLE001
            res.cases += 1
            res.violation(f"build-failed|{unit}", "build-failed", type(e).__name__, dict(unit=unit, entry="build", value_index=-1), f"{e!r:.300}")
            return res
        ns = ctx.ns
        E, TRACE = ns["E"], ns["TRACE"]
        top_is_E = "H" not in ns
        make = {"direct": lambda: E(), "field": lambda: E(), "list": lambda: [E(), E()], "optional": lambda: E(),
                "dictvalue": lambda: {"k": E()}}[pos]
        n_children = 2 if pos == "list" else 1
        value = E() if top_is_E else ns["H"](make())
        wire = {} if top_is_E else {"x": {"direct": {}, "field": {}, "list": [{}, {}], "optional": {}, "dictvalue": {"k": {}}}[pos]}
        top = type(value)
        tname = top.__name__

        def exp(pre, post):
            inner = [(pre, "E"), (post, "E")] * n_children
            return [(pre, "E"), (post, "E")] if top_is_E else [(pre, tname)] + inner + [(post, tname)]
        eps = [("to_dict", lambda: value.to_dict(), exp("pre_s", "post_s")), ("from_dict", lambda: top.from_dict(wire), exp("pre_d", "post_d"))]
        if kind == "orjson":
            import orjson
            eps += [("to_jsonb", lambda: value.to_jsonb(), exp("pre_s", "post_s")),
                    ("from_json", lambda: top.from_json(orjson.dumps(wire)), exp("pre_d", "post_d"))]
        if kind == "msgpack":
            import msgpack
            eps += [("to_msgpack", lambda: value.to_msgpack(), exp("pre_s", "post_s")),
                    ("from_msgpack", lambda: top.from_msgpack(msgpack.packb(wire)), exp("pre_d", "post_d"))]
        from mashumaro.codecs.basic import BasicDecoder, BasicEncoder
        eps += [("codec_encode", lambda: BasicEncoder(top).encode(value), exp("pre_s", "post_s")),
                ("codec_decode", lambda: BasicDecoder(top).decode(wire), exp("pre_d", "post_d"))]
        for rep in (0, 1):          # the second round meets compiled methods (lazy kinds compile in the first)
            for ei, (ep, call, want) in enumerate(eps):
                if only is not None and only != (ep, rep):
                    continue
                res.cases += 1
                res.transitions += 1
                del TRACE[:]
                try:
                    call()
                    got = list(TRACE)
                except Exception as e:   # noqa: BLE001
                    got = [("exc", type(e).__name__, str(e)[:120])]
                if got != want:
                    res.outcomes["neq"] += 1
                    res.violation(f"hook-trace|{unit}|{ep}|{rep}", "hook-trace", "fieldless", dict(unit=unit, entry=ep, value_index=rep),
                                  f"empty class E ({where} hooks, {kind}) at {pos}: {ep} round {rep} expected={want!r} got={got!r:.300}")
                else:
                    res.outcomes["ok"] += 1
                    res.nontrivial += 1
    res.states += 1
    return res


def _hooks(name, ctx_on):
    ca = ", context=None" if ctx_on else ""
    cv = ", context" if ctx_on else ", '<noarg>'"
    return (
        f"    def __pre_serialize__(self{ca}):\n"
        f"        LOG.append(('pre_s', '{name}'{cv}))\n"
        f"        return replace(self, tag=self.tag + '!')\n"
        f"    def __post_serialize__(self, d{ca}):\n"
        f"        LOG.append(('post_s', '{name}'{cv}))\n"
        f"        d = dict(d); d['_post'] = d.get('_post', 0) + 1; return d\n"
        f"    @classmethod\n"
        f"    def __pre_deserialize__(cls, d):\n"
        f"        LOG.append(('pre_d', '{name}'))\n"
        f"        d = dict(d); d.pop('_post', None); d['tag'] = d['tag'] + '?'; return d\n"
        f"    @classmethod\n"
        f"    def __post_deserialize__(cls, obj):\n"
        f"        LOG.append(('post_d', '{name}'))\n"
        f"        return replace(obj, tag=obj.tag + '$')\n")


LAZY = [False]


def _cfg(ctx_on, extra=()):
    flags = list(extra) + (["ADD_SERIALIZATION_CONTEXT"] if ctx_on else [])
    if not flags and not LAZY[0]:
        return ""
    return (f"    class Config(BaseConfig):\n        code_generation_options = [{', '.join(flags)}]\n"
            + ("        lazy_compilation = True\n" if LAZY[0] else ""))


def shape_type(shape, child):
    """type source for a field holding `child` (a class name or 'AB' for the leaf pair) in the given shape."""
    one = "A" if child == "AB" else child
    two = "B" if child == "AB" else child
    return {
        "direct": one, "list": f"List[{one}]", "dict": f"Dict[str, {two}]", "opt": f"Optional[{two}]",
        "tuple": f"typing.Tuple[{one}, int]", "unionAB": f"typing.Union[{one}, {two}]" if one != two else f"typing.Union[{one}, int]",
        "unionBA": f"typing.Union[{two}, {one}]" if one != two else f"typing.Union[int, {one}]",
        "listunion": f"List[typing.Union[{one}, {two}]]" if one != two else f"List[typing.Union[{one}, str]]",
        "unionint": f"typing.Union[int, {one}, {two}]" if one != two else f"typing.Union[int, str, {one}]",
        "dbase": "DBase", "dlist": "List[DBase]",
    }[shape]


def shape_values(shape, ones, twos):
    """lists of (value, [instances in traversal order]) for a shape given candidate child values."""
    o, t = ones[0], twos[0]
    if shape == "direct":
        return [(o, [o])]
    if shape == "list":
        o2 = ones[-1]
        return [([], []), ([o, o2], [o, o2])]
    if shape == "dict":
        return [({"k": t}, [t]), ({}, [])]
    if shape == "opt":
        return [(None, []), (t, [t])]
    if shape == "tuple":
        return [((o, 1), [o])]
    if shape in ("unionAB", "unionBA"):
        return [(o, [o]), (t, [t])] if o is not t else [(o, [o]), (5, [])]
    if shape == "listunion":
        return [([t, o, t], [t, o, t])] if o is not t else [([o, "s"], [o])]
    if shape == "unionint":
        return [(7, []), (t, [t]), (o, [o])]
    if shape == "dbase":
        return [(o, [o]), (t, [t])]
    if shape == "dlist":
        return [([], []), ([t, o, t], [t, o, t])]
    raise ValueError(shape)


class Tree:
    def __init__(self, kind, depth, s1, s2, mask, extra=0):
        self.ctx = space.Ctx()
        # other keyword flags on some classes only: they must not disturb the forwarding of `context`
        leaf_x = ("TO_DICT_ADD_OMIT_NONE_FLAG",) if extra == 1 else (("TO_DICT_ADD_BY_ALIAS_FLAG", "ADD_DIALECT_SUPPORT") if extra == 3 else ())
        mid_x = ("TO_DICT_ADD_BY_ALIAS_FLAG",) if extra in (1, 3) else ()
        root_x = ("TO_DICT_ADD_OMIT_NONE_FLAG", "ADD_DIALECT_SUPPORT") if extra == 2 else ()
        ns = self.ctx.ns
        ns["LOG"] = self.log = []
        ns["replace"] = dataclasses.replace
        from mashumaro.mixins.msgpack import DataClassMessagePackMixin
        from mashumaro.mixins.orjson import DataClassORJSONMixin
        ns.update(DataClassORJSONMixin=DataClassORJSONMixin, DataClassMessagePackMixin=DataClassMessagePackMixin)
        base = {"mixin": "(DataClassDictMixin)", "plain": "", "orjson": "(DataClassORJSONMixin)",
                "msgpack": "(DataClassMessagePackMixin)", "lazy": "(DataClassDictMixin)", "postponed": "(DataClassDictMixin)"}[kind]
        LAZY[0] = kind == "lazy"
        if depth == 2:
            on = dict(Root=bool(mask & 1), A=bool(mask & 2), B=bool(mask & 4), Mid=False)
        else:
            on = dict(Root=bool(mask & 1), Mid=bool(mask & 2), A=bool(mask & 4), B=bool(mask & 8))
        self.on, self.depth, self.kind = on, depth, kind
        q = (lambda t: repr(t)) if kind == "postponed" else (lambda t: t)
        srcs = []
        if (s2 if depth == 3 else s1) in DSHAPES:
            from mashumaro.types import Discriminator
            ns["Discriminator"] = Discriminator
            flags = list(leaf_x) + (["ADD_SERIALIZATION_CONTEXT"] if on["A"] else [])
            hooks = _hooks("A", on["A"]).replace("'A'", "CLSNAME")
            hooks = hooks.replace("LOG.append(('pre_s', CLSNAME", "LOG.append(('pre_s', type(self).__name__").replace(
                "LOG.append(('post_s', CLSNAME", "LOG.append(('post_s', type(self).__name__").replace("CLSNAME", "cls.__name__")
            srcs.append(f"@dataclass\nclass DBase{base}:\n    tag: str\n    class Config(BaseConfig):\n"
                         f"        discriminator = Discriminator(field='kind', include_subtypes=True)\n"
                         f"        code_generation_options = [{', '.join(flags)}]\n{hooks}")
            srcs.append("@dataclass\nclass A(DBase):\n    kind: str = 'A'\n")
            srcs.append("@dataclass\nclass B(DBase):\n    extra: int = 0\n    kind: str = 'B'\n")
        else:
            srcs.append(f"@dataclass\nclass A{base}:\n    tag: str\n{_cfg(on['A'], leaf_x)}{_hooks('A', on['A'])}")
            srcs.append(f"@dataclass\nclass B{base}:\n    tag: str\n    extra: int = 0\n{_cfg(on['B'], leaf_x)}{_hooks('B', on['B'])}")
        self.hookless_mid = extra == 4
        if depth == 3:
            srcs.append(f"@dataclass\nclass Mid{base}:\n    tag: str\n    c: {shape_type(s2, 'AB')}\n{_cfg(on['Mid'], mid_x)}"
                        + ("" if self.hookless_mid else _hooks('Mid', on['Mid'])))
            srcs.append(f"@dataclass\nclass Root{base}:\n    tag: str\n    m: {q(shape_type(s1, 'Mid'))}\n{_cfg(on['Root'], root_x)}{_hooks('Root', on['Root'])}")
        else:
            srcs.append(f"@dataclass\nclass Root{base}:\n    tag: str\n    m: {q(shape_type(s1, 'AB'))}\n{_cfg(on['Root'], root_x)}{_hooks('Root', on['Root'])}")
        if kind == "postponed":
            srcs = srcs[-1:] + srcs[:-1]        # Root first: its annotation cannot be resolved yet
        for src in srcs:
            self.ctx.run(src)
        self.s1, self.s2 = s1, s2

    def values(self):
        ns = self.ctx.ns
        a, a2, b = ns["A"]("a"), ns["A"]("aa"), ns["B"]("b", 3)
        out = []
        if self.depth == 2:
            for val, insts in shape_values(self.s1, [a, a2], [b]):
                out.append((ns["Root"]("r", val), insts))
        else:
            mids = []
            for val, insts in shape_values(self.s2, [a, a2], [b]):
                mids.append((ns["Mid"]("m", val), insts))
            m0 = mids[0][0]
            mlast = mids[-1][0]
            sub = {id(m): insts for m, insts in mids}
            for val, minsts in shape_values(self.s1, [m0, mlast], [mlast]):
                flat = []
                for m in minsts:
                    flat.append(m)
                    flat.extend(sub[id(m)])
                out.append((ns["Root"]("r", val), flat, minsts, sub))
        return out

    def close(self):
        self.ctx.close()


def expected_trace(tree, root, case, context):
    """pre/post-order traversal with the context each hook must see."""
    on = tree.on

    def cv(name, chain_ok):
        if not on[name]:
            return "<noarg>"
        return context if chain_ok else None
    tr = []
    root_ok = on["Root"]
    tr.append(("pre_s", "Root", cv("Root", root_ok)))
    if tree.depth == 2:
        for i in case[1]:
            n = type(i).__name__
            ok = root_ok and on[n]
            tr += [("pre_s", n, cv(n, ok)), ("post_s", n, cv(n, ok))]
    else:
        _, flat, minsts, sub = case
        for m in minsts:
            mid_ok = root_ok and on["Mid"]
            if not tree.hookless_mid:
                tr.append(("pre_s", "Mid", cv("Mid", mid_ok)))
            for i in sub[id(m)]:
                n = type(i).__name__
                ok = mid_ok and on[n]
                tr += [("pre_s", n, cv(n, ok)), ("post_s", n, cv(n, ok))]
            if not tree.hookless_mid:
                tr.append(("post_s", "Mid", cv("Mid", mid_ok)))
    tr.append(("post_s", "Root", cv("Root", root_ok)))
    return tr


def model_doc(x, plain=()):
    """the document the hooks' marks prescribe: every instance's own fields, tag + '!', one '_post' count
    (classes named in `plain` declare no hooks)."""
    if dataclasses.is_dataclass(x) and not isinstance(x, type):
        d = {f.name: model_doc(getattr(x, f.name), plain) for f in dataclasses.fields(x)}
        if type(x).__name__ not in plain:
            d["tag"] += "!"
            d["_post"] = 1
        return d
    if isinstance(x, dict):
        return {k: model_doc(v, plain) for k, v in x.items()}
    if isinstance(x, (list, tuple)):
        return [model_doc(v, plain) for v in x]
    return x


def walk_marks(x, out):
    """collect (tag, _post) of every dict that looks like a serialized node."""
    if isinstance(x, dict):
        if "tag" in x:
            out.append((x["tag"], x.get("_post")))
        for v in x.values():
            walk_marks(v, out)
    elif isinstance(x, (list, tuple)):
        for v in x:
            walk_marks(v, out)
    return out


def walk_instances(x, out):
    if dataclasses.is_dataclass(x) and not isinstance(x, type):
        out.append(x)
        for f in dataclasses.fields(x):
            walk_instances(getattr(x, f.name), out)
    elif isinstance(x, dict):
        for v in x.values():
            walk_instances(v, out)
    elif isinstance(x, (list, tuple)):
        for v in x:
            walk_instances(v, out)
    return out


def entry_points(tree):
    from mashumaro.codecs.basic import BasicDecoder, BasicEncoder
    ns = tree.ctx.ns
    Root = ns["Root"]
    eps = {}
    if tree.kind != "plain":
        eps["mixin"] = (lambda o, **kw: o.to_dict(**kw), Root.from_dict, True)
    if tree.kind == "orjson":
        eps["orjson-mixin"] = (lambda o, **kw: formats.parse("orjson", o.to_jsonb(**kw)),
                               lambda d: Root.from_json(formats.dump("orjson", d)), True)
    if tree.kind == "msgpack":
        eps["msgpack-mixin"] = (lambda o, **kw: formats.parse("msgpack", o.to_msgpack(**kw)),
                                lambda d: Root.from_msgpack(formats.dump("msgpack", d)), True)
    eps["basic"] = (BasicEncoder(Root).encode, BasicDecoder(Root).decode, False)
    for fmt in ("json", "orjson", "msgpack", "yaml"):
        E, D = formats.codecs(fmt)
        enc, dec = E(Root).encode, D(Root).decode
        eps[fmt] = ((lambda o, enc=enc, fmt=fmt: formats.parse(fmt, enc(o))),
                    (lambda d, dec=dec, fmt=fmt: dec(formats.dump(fmt, d))), False)
    return eps


def run_unit(unit, only=None):
    if unit[0] == "fieldless":
        return run_fieldless(unit, only)
    kind, depth, s1, s2, mask = unit[:5]
    extra = unit[5] if len(unit) > 5 else 0
    res = core.UnitResult()
    tree = Tree(kind, depth, s1, s2, mask, extra)

    def V(clause, ep, vi, detail, oc=""):
        res.violation(f"{clause}|{unit}|{ep}|{oc}", clause, oc or clause, dict(unit=unit, entry=ep, value_index=vi), detail)
    try:
        try:
            eps = entry_points(tree)
        except Exception as e:   # noqa: BLE001
            res.cases += 1
            V("build-failed", "build", -1, repr(e)[:300], type(e).__name__)
            return res
        static_only = (tree.s2 if tree.depth == 3 else tree.s1) in DSHAPES
        for vi, case in enumerate(tree.values()):
            root = case[0]
            ninst = 1 + len(case[1])
            for ep, (enc, dec, takes_ctx) in eps.items():
                if only is not None and only != (ep, vi):
                    continue
                contexts = [None]
                if takes_ctx and tree.on["Root"]:
                    contexts = [{"ctx": 1}]
                for context in contexts:
                    res.cases += 1
                    res.transitions += 2
                    tree.log.clear()
                    if static_only and ep != "mixin":
                        # a codec (and a format mixin's to_<format>, see F-FORMAT-MIXIN-SUBCLASS-FIELDS under C04) serializes a field by its
                        # annotated class (DBase), not by the instance's class: these entry points are exercised on the deserialization
                        # side, on the document the per-instance route (to_dict) produces
                        out = model_doc(root, ("Mid",) if tree.hookless_mid else ())
                        got = exp = []
                    else:
                        try:
                            out = enc(root, context=context) if (takes_ctx and tree.on["Root"]) else enc(root)
                        except Exception as e:   # noqa: BLE001
                            V("serialize-raised", ep, vi, f"{e!r:.300}", type(e).__name__)
                            continue
                        got = list(tree.log)
                        if static_only and out != model_doc(root, ("Mid",) if tree.hookless_mid else ()):
                            V("hook-return-not-used-once", ep, vi, f"output={out!r:.300} model={model_doc(root, ("Mid",) if tree.hookless_mid else ())!r:.300}", "serialize")
                            continue
                    if not (static_only and ep != "mixin"):
                        exp = expected_trace(tree, root, case, context if takes_ctx else None)
                    if not takes_ctx:
                        # codecs have no context argument: opted-in hooks see the default None
                        exp = [(k, n, ("<noarg>" if c == "<noarg>" else None)) for k, n, c in exp]
                    if [(k, n) for k, n, _ in got] != [(k, n) for k, n, _ in exp]:
                        V("hook-trace", ep, vi, f"value={root!r:.200} expected={[(k, n) for k, n, _ in exp]} got={[(k, n) for k, n, _ in got]}",
                          "serialize")
                        continue
                    if any(g[2] is not e[2] and g[2] != e[2] for g, e in zip(got, exp)):
                        V("context-not-forwarded", ep, vi, f"expected={exp!r:.300} got={got!r:.300}", "context")
                        continue
                    marks = walk_marks(out, [])
                    nmid = 0
                    if tree.hookless_mid:
                        # the hook-less intermediate nodes carry no marks: tag 'm' unchanged, no '_post'
                        nmid = sum(1 for t, p in marks if (t, p) == ("m", None))
                        marks = [(t, p) for t, p in marks if (t, p) != ("m", None)]
                        if nmid != len(case[2]):
                            V("hook-return-not-used-once", ep, vi, f"output={out!r:.300} unmarked intermediate nodes={nmid} expected={len(case[2])}", "serialize")
                            continue
                    if len(marks) != ninst - nmid or any(not re.fullmatch(r"[a-z]+!", t) or p != 1 for t, p in marks):
                        V("hook-return-not-used-once", ep, vi, f"output={out!r:.300} marks={marks}", "serialize")
                        continue
                    # ---- deserialize the produced document
                    tree.log.clear()
                    try:
                        back = dec(out)
                    except Exception as e:   # noqa: BLE001
                        V("deserialize-raised", ep, vi, f"input={out!r:.200} {e!r:.200}", type(e).__name__)
                        continue
                    log = list(tree.log)
                    insts = walk_instances(back, [])
                    posts = sorted(n for k, n in log if k == "post_d")
                    names = sorted(type(i).__name__ for i in insts if not (tree.hookless_mid and type(i).__name__ == "Mid"))
                    if posts != names:
                        V("post-deserialize-count", ep, vi, f"input={out!r:.200} instances={names} post_hooks={posts}", "deserialize")
                        continue
                    bad_order = False
                    pending = {}
                    for k, n in log:
                        if k == "pre_d":
                            pending[n] = pending.get(n, 0) + 1
                        else:
                            if pending.get(n, 0) <= 0:
                                bad_order = True
                            pending[n] = pending.get(n, 0) - 1
                    if bad_order:
                        V("pre-after-post-deserialize", ep, vi, f"log={log}", "deserialize")
                        continue
                    if any(not re.fullmatch(r"[a-z]+!\?\$", i.tag) for i in insts if not (tree.hookless_mid and type(i).__name__ == "Mid")):
                        V("hook-return-not-used-once", ep, vi, f"result={back!r:.300}", "deserialize")
                        continue
                    res.outcomes["ok"] += 1
                    if ninst >= 2:
                        res.nontrivial += 1
                    if vi == 0 and ep == "basic":
                        res.sample(dict(unit=unit, trace=[(k, n) for k, n, _ in got][:8], output=repr(out)[:100]), cap=1)
    finally:
        tree.close()
    res.states += 1
    return res


def replay(case):
    u = core.detuple(case["unit"])
    return run_unit(u, only=(case["entry"], case["value_index"]) if case["value_index"] >= 0 else None).violations
