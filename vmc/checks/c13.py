"""C13 — Dialects are isolated per call and honoured uniformly by every codec.

(a) engine E2: histories of calls with dialects {none, D1, D2, D3} on a class, its parent and its
    subclass; oracle = fresh twin whose Config.dialect is that dialect (called without dialect=).
(b) engine E1: every format codec x every single dialect option and every pair of options:
    parse_F(Encoder_F(T, default_dialect=D).encode(v)) ~ BasicEncoder(T, default_dialect=D).encode(v), decoder dually.
"""
import datetime
import uuid
import itertools
from dataclasses import dataclass, field
from typing import List, NamedTuple, Optional

from vmc import core, family, formats, hist
from vmc.checks import c14

PROPERTY = "C13"
ENGINE = "E2 histories + E1 schema-space"
RULE = ("(a) every history up to the depth bound over {to_dict, from_dict (and to_jsonb, from_json, to_msgpack, from_msgpack on the format-mixin family)} x {none, D1, D2, D3} x {class, parent, subclass} on fresh "
        "families (eager / lazy / postponed): each call's outcome equals a fresh twin with that dialect as Config.dialect; "
        "(b) every format x every subset of size <= 2 of the six dialect options x values: the format document parsed by the format's "
        "own library equals the basic codec's output under the same dialect, and the decoder dually. Non-trivial: a call with a "
        "dialect, or a transition from a non-initial state.")
ASSUMPTIONS = ["codec part: one Dialect class given to the codecs of two formats (every ordered pair) must behave like a fresh one; class-form strategy for UUID",
               "dialects D1 (date strategy), D2 (omit_none + int strategy), D3 (serialize_by_alias + omit_default) of vmc/family.py",
               "no_copy_collections is not observable in a format document; only its non-interference is checked there"]
UNIT_TIMEOUT = 1500
RECLIMIT = 170
DLS = ("n", "D1", "D2", "D3")


def bounds(tier):
    return dict(tier=tier, families=["nested", "inherit", "generic (holder of two specialisations of one generic dataclass)", "helpers (TypedDict / NamedTuple with default / Union fields: generated helper methods)", "formats (to_dict / to_jsonb / to_msgpack and back on one class)", "late (subclass defined by an operation of the history)"], modes=list(c14.MODES), history_depth=3 if tier == "quick" else 4,
                dialects=list(DLS), formats=list(formats.FORMATS), option_subsets="all of size <= 2 (thorough: <= 3)", dialect_styles=["options on the dialect", "on a parent Dialect class", "split between parent and child"])


def units(tier):
    out = []
    for fam in ("nested", "inherit", "helpers", "generic"):
        for mode in c14.MODES:
            out.append(("hist", fam, mode, 3 if tier == "quick" else 4))
    for mode in (("eager", "lazy") if tier == "quick" else c14.MODES):
        out.append(("hist", "formats", mode, 3))     # one class, three formats: dict / orjson / msgpack calls interleaved
    for mode in ("eager", "lazy"):
        out.append(("hist", "late", mode, 4 if tier == "quick" else 5))     # the subclass is defined by an op of the history
    maxr = 2 if tier == "quick" else 3
    names = list(OPTIONS)
    for fmt in formats.FORMATS:
        for r in range(0, maxr + 1):
            for sub in itertools.combinations(names, r):
                out.append(("codec", fmt, sub))
                if sub:
                    # the same options written on a parent Dialect class (all of them / the first one only)
                    out.append(("codec", fmt, sub, "inherited"))
                    if len(sub) > 1:
                        out.append(("codec", fmt, sub, "split"))
    return out


class Model(c14.Model):
    """Differs from C14's model in the oracle only: twin = class whose *default* dialect is the op's dialect."""

    def __init__(self, fam, mode):
        super().__init__(fam, mode, True)
        self.alphabet = family.ops_for(fam, True, DLS)
        if fam == "late":
            self.alphabet = [op for op in self.alphabet if op[2] == "C0"] + [("define", "n", "C")] + \
                            [op for op in self.alphabet if op[2] == "C"]

    def initial(self):
        return family.Family(self.fam, self.mode, self.support, defer=1 if self.fam == "late" else 0)

    def enabled(self, h):
        if self.fam != "late":
            return self.alphabet
        defined = any(op[0] == "define" for op in h)
        return [op for op in self.alphabet if (op[0] == "define" and not defined) or (op[0] != "define" and (op[2] != "C" or defined))]

    def _twin(self, dl):
        return family.Family(self.fam, "eager", True, config_dialect=None if dl == "n" else dl)

    def input_for(self, op):
        kind, dl, role = op
        if kind.startswith("to_") or kind == "define":
            return None
        if op not in self._inp:
            twin = self._twin(dl)
            try:
                self._inp[op] = family.raw_output(twin, (family.PAIR[kind], "n", role))
            finally:
                twin.dispose()
        return self._inp[op]

    def expected(self, h, op):
        if op[0] == "define":
            return ("ok", "defined")
        if op not in self._exp:
            kind, dl, role = op
            twin = self._twin(dl)
            try:
                self._exp[op] = family.run_op(twin, (kind, "n", role), self.input_for(op))
            finally:
                twin.dispose()
        return self._exp[op]


def run_hist(unit, only=None):
    _, fam, mode, depth = unit
    res = core.UnitResult()
    model = Model(fam, mode)
    if only is not None:
        h, op = only
        f = hist.rebuild(model, h)
        try:
            got = model.apply(f, op)
        finally:
            f.dispose()
        exp = model.expected(h, op)
        if got != exp:
            res.violation("replay", "outcome-neq-dialect-twin", got[1] if got[0] == "exc" else "value",
                          dict(unit=unit, history=h, op=op), f"got={got!r:.300} expected={exp!r:.300}")
        return res
    r = hist.bfs(model, depth)
    res.cases = res.transitions = r.transitions
    res.states = r.states
    res.capped = r.capped
    res.outcomes.update(r.outcomes)
    res.counters["states_with_multiple_predecessors"] += r.multi_pred
    res.counters["max_depth_completed"] = r.max_depth + 1
    res.nontrivial = max(0, r.transitions - len(model.alphabet))
    for (h, op, got, exp) in r.violations:
        oc = got[1] if got[0] == "exc" else "value"
        res.violation(f"outcome-neq-dialect-twin|{fam}|{mode}|{op}|{oc}|{len(h)}", "outcome-neq-dialect-twin", oc,
                      dict(unit=unit, history=h, op=op), f"history={h!r} op={op!r} got={got!r:.300} expected={exp!r:.300}")
    for s in r.samples[:1]:
        res.sample(dict(family=fam, mode=mode, **s))
    return res


# ------------------------------------------------------------------------------------------------
# (b) codecs
# ------------------------------------------------------------------------------------------------
class NT(NamedTuple):
    a: int
    b: str


@dataclass
class T13:
    d: datetime.date
    nt: NT
    l: List[int]
    al: int = field(default=3, metadata={"alias": "AL"})
    o: Optional[int] = None
    df: int = 5
    b: bytes = b"\x00\xffabc"          # native in msgpack whatever user dialect is merged on top of the format dialect
    u: uuid.UUID = uuid.UUID("12345678-1234-5678-1234-567812345678")   # the orjson dialect has its own entry for UUID


class _RevUUID:
    """Built lazily: a class-form SerializationStrategy (an object, not a dict of callables)."""
    obj = None

    @classmethod
    def get(cls):
        if cls.obj is None:
            from mashumaro.types import SerializationStrategy

            class RevUUID(SerializationStrategy):
                def serialize(self, value):
                    return value.hex[::-1]

                def deserialize(self, value):
                    return uuid.UUID(hex=value[::-1])
            cls.obj = RevUUID
        return cls.obj()



OPTIONS = {
    "serialization_strategy": lambda: {datetime.date: {"serialize": lambda v: v.strftime("%Y/%m/%d"),
                                                       "deserialize": lambda s: datetime.datetime.strptime(s, "%Y/%m/%d").date()}},
    "serialization_strategy_obj": lambda: {uuid.UUID: _RevUUID.get()},
    "serialize_by_alias": lambda: True,
    "namedtuple_as_dict": lambda: True,
    "omit_none": lambda: True,
    "omit_default": lambda: True,
    "no_copy_collections": lambda: (list, dict),
}
VALUES = [
    lambda: T13(datetime.date(2020, 1, 2), NT(1, "x"), [1, 2]),
    lambda: T13(datetime.date(1999, 12, 31), NT(-1, ""), [], al=4, o=7, df=6),
    lambda: T13(datetime.date(2021, 3, 4), NT(0, "y"), [3], al=3, o=None, df=5),
]


def _bytes_as_base64(x):
    import base64
    if isinstance(x, (bytes, bytearray)):
        return base64.encodebytes(bytes(x)).decode()
    if isinstance(x, dict):
        return {k: _bytes_as_base64(v) for k, v in x.items()}
    if isinstance(x, list):
        return [_bytes_as_base64(v) for v in x]
    return x


def _ns(keys):
    """Class namespace of a Dialect carrying the named options (the two strategy options share one attribute)."""
    out = {}
    for k in keys:
        if k.startswith("serialization_strategy"):
            out.setdefault("serialization_strategy", {}).update(OPTIONS[k]())
        else:
            out[k] = OPTIONS[k]()
    return out


def run_codec(unit):
    from mashumaro.dialect import Dialect
    _, fmt, sub = unit[:3]
    style = unit[3] if len(unit) > 3 else "direct"
    res = core.UnitResult()
    both_strategies = "serialization_strategy" in sub and "serialization_strategy_obj" in sub
    if style != "direct" and both_strategies:
        # a child's serialization_strategy replaces its parent's attribute as a whole (plain class attribute lookup):
        # written on two levels the two entries are not one dialect
        res.counters["split_strategy_units_skipped"] += 1
        return res
    if not sub:
        D = None
    elif style == "direct":
        D = type("UD", (Dialect,), _ns(sub))
    else:
        up = sub if style == "inherited" else sub[:1]
        Parent = type("House", (Dialect,), _ns(up))
        D = type("UD", (Parent,), _ns([k for k in sub if k not in up]))
    Enc, Dec = formats.codecs(fmt)
    BEnc, BDec = formats.codecs("basic")
    try:
        enc, dec = Enc(T13, default_dialect=D), Dec(T13, default_dialect=D)
        benc, bdec = BEnc(T13, default_dialect=D), BDec(T13, default_dialect=D)
    except Exception as e:   # noqa: BLE001
        res.cases += 1
        res.violation(f"build-failed|{fmt}|{sub}|{style}", "build-failed", type(e).__name__, dict(unit=unit, value=None), repr(e)[:300])
        return res
    res.transitions += 4
    for vi, mk in enumerate(VALUES):
        v = mk()
        res.cases += 2
        res.transitions += 4
        try:
            basic = benc.encode(mk())
            if style != "direct":
                # anchor: where the options are written must not matter to the basic codec either
                direct = BEnc(T13, default_dialect=type("UD", (Dialect,), _ns(sub))).encode(mk())
                if direct != basic:
                    res.violation(f"codec-dialect-neq|basic|{sub}|{style}|encode", "codec-dialect-neq", "encode",
                                  dict(unit=unit, value=vi), f"value={v!r} basic codec: options on the dialect {direct!r} vs {style} {basic!r}")
            doc = enc.encode(v)
            parsed = _bytes_as_base64(formats.denative(formats.parse(fmt, doc)))     # msgpack carries bytes natively
            exp = formats.drop_none(basic) if fmt == "toml" else basic
            if parsed != exp:
                res.outcomes["encode-neq"] += 1
                res.violation(f"codec-dialect-neq|{fmt}|{sub}|{style}|encode", "codec-dialect-neq", "encode",
                              dict(unit=unit, value=vi), f"value={v!r} basic={exp!r} parsed_{fmt}={parsed!r}")
            else:
                res.outcomes["encode-ok"] += 1
                res.nontrivial += 1 if sub else 0
            # decoder dual: a document produced by the format's own dumper (from the basic output; for TOML, whose
            # dates are native, from the parsed library document) must decode like the basic decoder
            src = formats.drop_none(basic) if fmt == "toml" else basic
            want = bdec.decode(src)
            foreign = formats.dump(fmt, formats.parse(fmt, doc)) if fmt in ("toml", "msgpack") else formats.dump(fmt, src)
            got = dec.decode(foreign)
            if got != want or type(got) is not type(want):
                res.outcomes["decode-neq"] += 1
                res.violation(f"codec-dialect-neq|{fmt}|{sub}|{style}|decode", "codec-dialect-neq", "decode",
                              dict(unit=unit, value=vi), f"doc={src!r} basic_decoder={want!r} {fmt}_decoder={got!r}")
            else:
                res.outcomes["decode-ok"] += 1
                res.nontrivial += 1 if sub else 0
        except Exception as e:   # noqa: BLE001
            res.outcomes["exc:" + type(e).__name__] += 1
            res.violation(f"codec-raised|{fmt}|{sub}|{style}|{type(e).__name__}", "codec-raised", type(e).__name__,
                          dict(unit=unit, value=vi), repr(e)[:300])
    # one Dialect class handed to the codecs of TWO formats (every ordered pair): what the first format's codecs did with
    # it must not change what this format's codecs do - same documents, same decoded values as above
    if D is not None and style == "direct":
        try:
            first_docs = [enc.encode(mk()) for mk in VALUES]
            first_back = [dec.decode(d) for d in first_docs]
        except Exception:   # noqa: BLE001
            first_docs = None
        for other in formats.FORMATS:
            if other == fmt or first_docs is None:
                continue
            res.cases += 1
            res.transitions += 4 + 2 * len(VALUES)
            try:
                D2 = type("UD", (Dialect,), _ns(sub))
                OEnc, ODec = formats.codecs(other)
                OEnc(T13, default_dialect=D2), ODec(T13, default_dialect=D2)
                enc2, dec2 = Enc(T13, default_dialect=D2), Dec(T13, default_dialect=D2)
                for vi, mk in enumerate(VALUES):
                    doc2 = enc2.encode(mk())
                    back = dec2.decode(first_docs[vi])
                    if doc2 != first_docs[vi] or back != first_back[vi]:
                        res.outcomes["after-other-format-neq"] += 1
                        res.violation(f"codec-dialect-shared|{fmt}|{sub}|after-{other}", "codec-dialect-shared", "neq",
                                      dict(unit=unit, value=vi),
                                      f"dialect first given to the {other} codecs: {fmt} document {doc2!r:.200} (alone: {first_docs[vi]!r:.200}) decoded {back!r:.200} (alone: {first_back[vi]!r:.200})")
                        break
                else:
                    res.outcomes["after-other-format-ok"] += 1
                    res.nontrivial += 1
            except Exception as e:   # noqa: BLE001
                res.outcomes["exc:" + type(e).__name__] += 1
                res.violation(f"codec-dialect-shared|{fmt}|{sub}|after-{other}|{type(e).__name__}", "codec-dialect-shared", type(e).__name__,
                              dict(unit=unit, value=0), f"dialect first given to the {other} codecs, then {fmt}: {e!r:.300}")
    res.sample(dict(format=fmt, dialect_options=list(sub), document=repr(enc.encode(VALUES[0]()))[:120]))
    res.states += 1
    return res


def run_unit(unit):
    return run_hist(unit) if unit[0] == "hist" else run_codec(unit)


def replay(case):
    unit = core.detuple(case["unit"])
    if unit[0] == "hist":
        h = tuple(tuple(o) for o in core.detuple(case["history"]))
        return run_hist(unit, only=(h, tuple(core.detuple(case["op"])))).violations
    unit = (unit[0], unit[1], tuple(unit[2])) + tuple(unit[3:])
    return [v for v in run_codec(unit).violations if v["case"]["value"] == case["value"]]
