"""C08 — Serialization options only project the plain output (engine E1, option lattice)."""

import itertools
from dataclasses import MISSING, dataclass, field
from typing import List, Optional, Tuple

from vmc.tmod import ES

from vmc import core

PROPERTY = "C08"
ENGINE = "E1 schema-space"
RULE = ("every point of the option lattice (Config x Config.dialect x call dialect x sort_keys x lazy x code-generation flag subsets "
        "x keyword arguments x nested class kind x nested-class flag subsets differing from the outer ones) x every instance of the value grid: to_dict must equal PROJECT(effective options, "
        "plain output) with exact key order. Non-trivial: at least one option is in effect (the projection differs from the plain "
        "output); distinct = distinct (lattice point, instance).")
ASSUMPTIONS = [
    "one outer schema with aliased / nullable / defaulted / factory-defaulted / omitted / nested / tuple-defaulted (one item, enum member, nested) fields and two nested-class kinds",
    "precedence: keyword > call dialect > Config.dialect > Config > default; flags reach a nested class only if both sides enabled them",
]
UNIT_TIMEOUT = 900
CHUNK = 4
TRI = (None, False, True)
OPTS = ("omit_none", "omit_default", "serialize_by_alias")


def _vectors(full):
    if full:
        return [dict((k, v) for k, v in zip(OPTS, t) if v is not None) for t in itertools.product(TRI, repeat=3)]
    out = [dict()]
    for k in OPTS:
        out += [{k: False}, {k: True}]
    out += [dict.fromkeys(OPTS, True), dict.fromkeys(OPTS, False)]
    return out


def bounds(tier):
    return dict(tier=tier, config_vectors=27, config_dialect_vectors=1 + len(_vectors(tier == "thorough")),
                call_dialect_vectors=len(_vectors(tier == "thorough")), flag_subsets=8, sort_keys=2,
                lazy="subset" if tier == "quick" else "all", inner_kinds=["plain", "mixin-own-options"],
                instances=len(_instances(None, None)) if False else 72,
                self_nested=dict(spellings=list(SELF_SPELLINGS), trees=7, positions=["Optional", "List", "Dict value"]))


def units(tier):
    full = tier == "thorough"
    out = []
    cfgs = [dict((k, v) for k, v in zip(OPTS, t) if v is not None) for t in itertools.product(TRI, repeat=3)]
    for ci, cfg in enumerate(cfgs):
        for cd in [None] + _vectors(full):
            for flags in range(8):
                for sk in (False, True):
                    for inner in ("plain", "mixin"):
                        lazy_opts = (False, True) if (full or (ci + flags) % 5 == 0) else (False,)
                        for lazy in lazy_opts:
                            out.append((tuple(sorted(cfg.items())), None if cd is None else tuple(sorted(cd.items())),
                                        flags, sk, inner, lazy, tier, None))
    # uneven code-generation flags between the outer and the nested class (None above = the same flags on both sides)
    uneven_cfgs = cfgs if full else [dict(), dict(omit_none=True), dict(serialize_by_alias=True)]
    for cfg in uneven_cfgs:
        for cd in ([None] + _vectors(full) if full else [None, dict(omit_none=True, serialize_by_alias=True)]):
            for flags in range(8):
                for iflags in range(8):
                    if iflags == flags:
                        continue
                    for lazy in ((False, True) if full else (False,)):
                        out.append((tuple(sorted(cfg.items())), None if cd is None else tuple(sorted(cd.items())),
                                    flags, False, "mixin", lazy, tier, iflags))
    # a class nested in ITSELF (typing.Self / its own name / its own name in a postponed module): the keyword flags, the
    # call dialect and the Config options must reach every level of the tree
    for spelling in SELF_SPELLINGS:
        for cfg in cfgs:
            for cd in [None] + _vectors(full):
                for flags in range(8):
                    for lazy in ((False, True) if full else ((False, True) if flags in (0, 7) else (False,))):
                        out.append(("self", spelling, tuple(sorted(cfg.items())), None if cd is None else tuple(sorted(cd.items())),
                                    flags, lazy, tier))
    return out


SELF_SPELLINGS = ("typing.Self", "name", "name-postponed")
_SELF_SEQ = [0]


def _build_self(spelling, cfg, cd, flags, lazy):
    import sys
    import types
    _SELF_SEQ[0] += 1
    modname = f"vmc_c08_self_{_SELF_SEQ[0]}"
    ref = "typing.Self" if spelling == "typing.Self" else '"Node"'
    fl = [n for bit, n in ((1, "TO_DICT_ADD_OMIT_NONE_FLAG"), (2, "TO_DICT_ADD_BY_ALIAS_FLAG"), (4, "ADD_DIALECT_SUPPORT")) if flags & bit]
    lines = []
    if spelling == "name-postponed":
        lines.append("from __future__ import annotations")
        ref = "Node"
    lines += ["import typing", "from dataclasses import dataclass, field", "from typing import Dict, List, Optional",
              "from mashumaro import DataClassDictMixin", "from mashumaro.dialect import Dialect",
              "from mashumaro.config import (ADD_DIALECT_SUPPORT, TO_DICT_ADD_BY_ALIAS_FLAG, TO_DICT_ADD_OMIT_NONE_FLAG, BaseConfig)"]
    if cd is not None:
        lines += ["class CD(Dialect):"] + [f"    {k} = {v!r}" for k, v in cd.items()] + (["    pass"] if not cd else [])
    lines += ["@dataclass", "class Node(DataClassDictMixin):",
              "    v: Optional[int] = field(default=None, metadata={'alias': 'v_al'})",
              "    w: int = 1",
              f"    nxt: Optional[{ref}] = None",
              f"    kids: List[{ref}] = field(default_factory=list)",
              f"    idx: Dict[str, {ref}] = field(default_factory=dict)",
              "    class Config(BaseConfig):"]
    lines += [f"        {k} = {v!r}" for k, v in cfg.items()]
    lines += [f"        code_generation_options = [{', '.join(fl)}]", f"        lazy_compilation = {lazy!r}",
              "        aliases = {'kids': 'kids_al'}"]
    if cd is not None:
        lines.append("        dialect = CD")
    mod = types.ModuleType(modname)
    sys.modules[modname] = mod
    exec(compile("\n".join(lines) + "\n", f"<{modname}>", "exec"), mod.__dict__)
    return mod, modname


def _self_project(node, on, od, ba):
    items = [("v", "v_al", node.v, None, node.v), ("w", None, node.w, 1, node.w),
             ("nxt", None, node.nxt, None, None if node.nxt is None else _self_project(node.nxt, on, od, ba)),
             ("kids", "kids_al", node.kids, [], [_self_project(k, on, od, ba) for k in node.kids]),
             ("idx", None, node.idx, {}, {k: _self_project(x, on, od, ba) for k, x in node.idx.items()})]
    return project(items, on, od, ba, False)


def _self_trees(N):
    leaf = lambda: N()                                  # every field at its default
    leaf2 = lambda: N(v=3, w=2)
    return [N(), N(v=1), N(nxt=leaf()), N(v=1, nxt=N(nxt=leaf2())), N(kids=[leaf(), leaf2()]), N(idx={"k": leaf()}),
            N(v=2, w=5, nxt=N(v=None, kids=[N(idx={"a": leaf2(), "b": leaf()})]), kids=[N(nxt=leaf())], idx={"z": N(kids=[leaf()])})]


def run_self_unit(unit, only=None):
    import sys
    from mashumaro.dialect import Dialect
    _, spelling, cfg_t, cd_t, flags, lazy, tier = unit
    cfg, cd = dict(cfg_t), (None if cd_t is None else dict(cd_t))
    res = core.UnitResult()
    mod, modname = _build_self(spelling, cfg, cd, flags, lazy)
    try:
        N = mod.Node
        res.transitions += 1
        call_dialects = [None]
        # the interplay keyword-flag default x call dialect is the open finding F-KWFLAG-MASKS-CALL-DIALECT, judged by the
        # main units with its deviation model: call dialects are used here only without keyword flags
        if flags == 4:
            call_dialects += _vectors(tier == "thorough")
        kw_opts = [{}]
        if flags & 1:
            kw_opts = kw_opts + [dict(k, omit_none=v) for k in kw_opts for v in (False, True)]
        if flags & 2:
            kw_opts = kw_opts + [dict(k, by_alias=v) for k in kw_opts for v in (False, True)]
        for di, calld in enumerate(call_dialects):
            dobj = None if calld is None else type(f"Call{di}", (Dialect,), dict(calld))
            for kwi, kw in enumerate(kw_opts):
                sources = [calld, cd, cfg]
                on = kw["omit_none"] if "omit_none" in kw else eff(sources, "omit_none")
                ba = kw["by_alias"] if "by_alias" in kw else eff(sources, "serialize_by_alias")
                od = eff(sources, "omit_default")
                kwargs = dict(kw)
                if dobj is not None:
                    kwargs["dialect"] = dobj
                for ii, inst in enumerate(_self_trees(N)):
                    if only is not None and only != (di, kwi, ii):
                        continue
                    exp = _self_project(inst, on, od, ba)
                    res.cases += 1
                    res.transitions += 1
                    try:
                        got = inst.to_dict(**kwargs)
                        oc = "ok"
                    except Exception as e:   # noqa: BLE001
                        got = ("EXC", type(e).__name__, str(e)[:200])
                        oc = "exc:" + type(e).__name__
                    good = isinstance(got, dict) and got == exp and _deep_order(got, exp)
                    if not good:
                        res.outcomes["neq" if oc == "ok" else oc] += 1
                        res.violation(f"self-project-neq|{spelling}|{cfg_t}|{cd_t}|{flags}|{lazy}|{sorted(kw.items())}|{calld}",
                                      "project-neq", oc, dict(unit=unit, call=(di, kwi, ii), kw=kw, call_dialect=calld, facts={}),
                                      f"spelling={spelling} instance={inst!r:.200} expected={exp!r:.300} got={got!r:.300}")
                    else:
                        res.outcomes["ok"] += 1
                        if ii >= 2 and (on or od or ba):
                            res.nontrivial += 1
    finally:
        sys.modules.pop(modname, None)
    res.states += 1
    return res


def eff(sources, name):
    for s in sources:
        if s is not None and name in s:
            return s[name]
    return False


def project(items, on, od, ba, sort_keys):
    """items: (fname, alias, raw, default, packed). The model of the property statement."""
    items = list(items)
    if sort_keys:
        items.sort(key=lambda t: t[0])
    out = {}
    for fname, alias, raw, default, packed in items:
        if on and packed is None:
            continue
        if od and default is not MISSING and raw == default:
            continue
        out[alias if (ba and alias) else fname] = packed
    return out


def _build(cfg, cd, flags, sk, inner_kind, lazy, iflags=None):
    from mashumaro import DataClassDictMixin
    from mashumaro.config import (ADD_DIALECT_SUPPORT, TO_DICT_ADD_BY_ALIAS_FLAG, TO_DICT_ADD_OMIT_NONE_FLAG,
                                  BaseConfig)
    from mashumaro.dialect import Dialect
    fl = []
    if flags & 1:
        fl.append(TO_DICT_ADD_OMIT_NONE_FLAG)
    if flags & 2:
        fl.append(TO_DICT_ADD_BY_ALIAS_FLAG)
    if flags & 4:
        fl.append(ADD_DIALECT_SUPPORT)
    ifl = list(fl)
    if iflags is not None:
        ifl = [o for bit, o in ((1, TO_DICT_ADD_OMIT_NONE_FLAG), (2, TO_DICT_ADD_BY_ALIAS_FLAG), (4, ADD_DIALECT_SUPPORT)) if iflags & bit]
    ns = dict(cfg)
    ns.update(sort_keys=sk, code_generation_options=fl, aliases={"c": "c_al"}, lazy_compilation=lazy)
    if cd is not None:
        ns["dialect"] = type("CD", (Dialect,), dict(cd))
    Cfg = type("Config", (BaseConfig,), ns)

    if inner_kind == "plain":
        @dataclass
        class Inner:
            p: Optional[int] = field(default=None, metadata={"alias": "p_al"})
            q: int = 1
        inner_cfg, inner_flags = {}, 0
    else:
        @dataclass
        class Inner(DataClassDictMixin):
            p: Optional[int] = field(default=None, metadata={"alias": "p_al"})
            q: int = 1

            class Config(BaseConfig):
                omit_none = True
                serialize_by_alias = True
                code_generation_options = ifl
        inner_cfg, inner_flags = dict(omit_none=True, serialize_by_alias=True), flags if iflags is None else iflags

    @dataclass
    class M(DataClassDictMixin):
        z: int
        n: Inner
        b: Optional[int] = field(default=None, metadata={"alias": "b_al"})
        c: Optional[str] = "dflt"
        a: int = 7
        l: List[int] = field(default_factory=list)
        o: Optional[List[int]] = None
        h: int = field(default=5, metadata={"serialize": "omit"})
        m: Optional[Inner] = None
        # tuple defaults: one item, an item without a literal form (enum member), nested
        t: Tuple[int, ...] = (0,)
        te: Tuple[ES, ...] = (ES.A,)
        tn: Tuple[Tuple[int, ...], ...] = ((1,), (2, 3))
        Config = Cfg
    return M, Inner, inner_cfg, inner_flags


FIELDS = [("z", None, MISSING), ("n", None, MISSING), ("b", "b_al", None), ("c", "c_al", "dflt"), ("a", None, 7),
          ("l", None, []), ("o", None, None), ("m", None, None), ("t", None, (0,)), ("te", None, (ES.A,)), ("tn", None, ((1,), (2, 3)))]


def _instances(M, Inner):
    out = []
    for b, c, a in itertools.product((None, 3), (None, "dflt", "x"), (7, 8)):
        for (l, o) in (([], None), ([1], []), ([], [2])):
            for ni in range(2):
                out.append((b, c, a, l, o, ni))
    return out


def _inner_vals(Inner):
    return [Inner(), Inner(p=4, q=2)]


def run_unit(unit, only=None):
    from mashumaro.dialect import Dialect
    if unit[0] == "self":
        return run_self_unit(unit, only)
    cfg_t, cd_t, flags, sk, inner_kind, lazy, tier = unit[:7]
    iflags = unit[7] if len(unit) > 7 else None
    cfg = dict(cfg_t)
    cd = None if cd_t is None else dict(cd_t)
    res = core.UnitResult()
    M, Inner, inner_cfg, inner_flags = _build(cfg, cd, flags, sk, inner_kind, lazy, iflags)
    res.transitions += 1
    call_dialects = [None]
    if flags & 4:
        call_dialects += _vectors(tier == "thorough")
    dialect_objs = {}
    kw_opts = [{}]
    if flags & 1:
        kw_opts = kw_opts + [dict(k, omit_none=v) for k in kw_opts for v in (False, True)]
    if flags & 2:
        kw_opts = kw_opts + [dict(k, by_alias=v) for k in kw_opts for v in (False, True)]
    ivals = _inner_vals(Inner)
    insts = _instances(M, Inner)
    for di, calld in enumerate(call_dialects):
        if calld is not None:
            dialect_objs[di] = type(f"Call{di}", (Dialect,), dict(calld))
        for kwi, kw in enumerate(kw_opts):
            sources = [calld, cd, cfg]
            on = kw["omit_none"] if "omit_none" in kw else eff(sources, "omit_none")
            ba = kw["by_alias"] if "by_alias" in kw else eff(sources, "serialize_by_alias")
            od = eff(sources, "omit_default")
            # nested class: its own options; flags forwarded only when both sides enabled them
            in_sources = [calld if (flags & 4 and inner_flags & 4) else None, inner_cfg]
            i_on = on if (flags & 1 and inner_flags & 1) else eff(in_sources, "omit_none")
            i_ba = ba if (flags & 2 and inner_flags & 2) else eff(in_sources, "serialize_by_alias")
            i_od = eff(in_sources, "omit_default")

            def inner_plain(x):
                if x is None:
                    return None
                return project([("p", "p_al", x.p, None, x.p), ("q", None, x.q, 1, x.q)], i_on, i_od, i_ba, False)
            kwargs = dict(kw)
            if calld is not None:
                kwargs["dialect"] = dialect_objs[di]
            for ii, (b, c, a, l, o, ni) in enumerate(insts):
                if only is not None and only != (di, kwi, ii):
                    continue
                nv = ivals[ni]
                mv = None if ni == 0 else ivals[0]
                # the tuple fields hold their defaults exactly when `a` does
                t, te, tn = ((0,), (ES.A,), ((1,), (2, 3))) if a == 7 else ((0, 0), (ES.A, ES.B), ((1,),))
                inst = M(z=1, n=nv, b=b, c=c, a=a, l=list(l), o=None if o is None else list(o), m=mv, t=t, te=te, tn=tn)
                raw = dict(z=1, n=nv, b=b, c=c, a=a, l=l, o=o, m=mv, t=t, te=te, tn=tn)
                packed = dict(raw, n=inner_plain(nv), m=inner_plain(mv), t=list(t), te=[x.value for x in te], tn=[list(x) for x in tn])
                items = [(f, al, raw[f], dflt, packed[f]) for f, al, dflt in FIELDS]
                exp = project(items, on, od, ba, sk)
                res.cases += 1
                res.transitions += 1
                try:
                    got = inst.to_dict(**kwargs)
                    oc = "ok"
                except Exception as e:   # noqa: BLE001
                    got = ("EXC", type(e).__name__, str(e)[:200])
                    oc = "exc:" + type(e).__name__
                good = isinstance(got, dict) and got == exp and list(got) == list(exp) and _deep_order(got, exp)
                facts = {}
                if not good and calld is not None:
                    # deviation model: a flag's keyword default (computed without the call dialect) is forwarded
                    # explicitly to the dialect-specific method and masks the call dialect's own option
                    a_on = kw["omit_none"] if "omit_none" in kw else (eff([cd, cfg], "omit_none") if flags & 1 else on)
                    a_ba = kw["by_alias"] if "by_alias" in kw else (eff([cd, cfg], "serialize_by_alias") if flags & 2 else ba)
                    both_d = flags & 4 and inner_flags & 4
                    ai_on = a_on if (flags & 1 and inner_flags & 1) else (eff([inner_cfg], "omit_none") if (inner_flags & 1 and both_d) else i_on)
                    ai_ba = a_ba if (flags & 2 and inner_flags & 2) else (eff([inner_cfg], "serialize_by_alias") if (inner_flags & 2 and both_d) else i_ba)

                    def inner_alt(x):
                        if x is None:
                            return None
                        return project([("p", "p_al", x.p, None, x.p), ("q", None, x.q, 1, x.q)], ai_on, i_od, ai_ba, False)
                    apacked = dict(packed, n=inner_alt(nv), m=inner_alt(mv))
                    aitems = [(f, al, raw[f], dflt, apacked[f]) for f, al, dflt in FIELDS]
                    alt = project(aitems, a_on, od, a_ba, sk)
                    facts["kwflag_default_masks_call_dialect"] = bool(
                        isinstance(got, dict) and got == alt and list(got) == list(alt) and _deep_order(got, alt)
                        and (((flags | inner_flags) & 1 and "omit_none" not in kw and "omit_none" in calld)
                             or ((flags | inner_flags) & 2 and "by_alias" not in kw and "serialize_by_alias" in calld)))
                if not good:
                    res.outcomes["neq" if oc == "ok" else oc] += 1
                    res.violation(f"project-neq|{cfg_t}|{cd_t}|{flags}/{iflags}|{sk}|{inner_kind}|{lazy}|{sorted(kw.items())}|{calld}",
                                  "project-neq", oc,
                                  dict(unit=unit, call=(di, kwi, ii), kw=kw, call_dialect=calld, facts=facts),
                                  f"instance={inst!r:.200} expected={exp!r:.300} got={got!r:.300}")
                else:
                    res.outcomes["ok"] += 1
                    plain = project(items, False, False, False, False)
                    if exp != plain or list(exp) != list(plain):
                        res.nontrivial += 1
                    if ii == 5 and len(res.samples) < 1:
                        res.sample(dict(config=cfg, config_dialect=cd, flags=flags, sort_keys=sk, kw=kw, call_dialect=calld,
                                        result=repr(got)[:160]))
    res.states += 1
    return res


def _deep_order(a, b):
    if isinstance(a, dict) and isinstance(b, dict):
        return list(a) == list(b) and all(_deep_order(a[k], b[k]) for k in a)
    return True


def replay(case):
    unit = tuple(core.detuple(case["unit"]))
    return run_unit(unit, only=tuple(case["call"])).violations
