"""C02 — Serialization emits exactly the documented basic form (engine E1 + reference model)."""
from __future__ import annotations

import datetime as dt
import json
import uuid

from vmc import core, e1, ref, space

PROPERTY = "C02"
ENGINE = "E1 schema-space"
RULE = ("every (schema, dialect, entry point, value) tuple: the library's serialization must be `same` (exact types, exact "
        "key/element/field order) as ref.encode, contain only str/int/float/bool/None/list/dict plus the dialect's declared "
        "native types, and be accepted by json.dumps when the schema has no Any leaf. Non-trivial: the reference encoding "
        "differs structurally from the value.")
ASSUMPTIONS = [
    "vmc/ref.py is the trusted reading of README.md (it shares no code with the library)",
    "format dialects are observed through the documented identity encoder (mixins) and as default_dialect of BasicEncoder",
    "CPython 3.12.1; depth and value domains bounded as stated in bounds",
]
UNIT_TIMEOUT = 300
CHUNK = 8
FORMATS = ("default", "orjson", "msgpack", "toml")
NATIVE_TYPES = {"default": (), "orjson": (dt.datetime, dt.date, dt.time, uuid.UUID), "msgpack": (bytes, bytearray),
                "toml": (dt.datetime, dt.date, dt.time)}


def bounds(tier):
    return dict(tier=tier, schemas=len(space.schemas(tier)), dialects=list(FORMATS),
                entry_points=["codec", "mixin", "nested", "format-mixin identity encoder", "format-mixin class's plain to_dict"],
                full_alphabet_depth=1 if tier == "quick" else 2, representative_depth=3 if tier == "quick" else 4)


def units(tier):
    out = []
    for d in space.schemas(tier):
        out.append((d, "default"))
        if space.depth(d) <= (2 if tier == "quick" else 3):
            for f in FORMATS[1:]:
                out.append((d, f))
    return out


def _dialect(fmt):
    if fmt == "orjson":
        from mashumaro.mixins.orjson import OrjsonDialect
        return OrjsonDialect
    if fmt == "msgpack":
        from mashumaro.mixins.msgpack import MessagePackDialect
        return MessagePackDialect
    if fmt == "toml":
        from mashumaro.mixins.toml import TOMLDialect
        return TOMLDialect
    return None


def _format_mixin_encoder(fmt, h, ctx):
    hn = ctx.inject(h, "_h")
    n = ctx.fresh("FW")
    if fmt == "orjson":
        from mashumaro.mixins.orjson import DataClassORJSONMixin as B
        call = lambda o: o.to_jsonb(encoder=lambda d, **kw: d)   # noqa: E731
    elif fmt == "msgpack":
        from mashumaro.mixins.msgpack import DataClassMessagePackMixin as B
        call = lambda o: o.to_msgpack(encoder=lambda d: d)   # noqa: E731
    else:
        from mashumaro.mixins.toml import DataClassTOMLMixin as B
        call = lambda o: o.to_toml(encoder=lambda d: d)   # noqa: E731
    ctx.ns["_FB"] = B
    W = ctx.execute(n, f"@dataclass\nclass {n}(_FB):\n    x: {hn}\n")
    # ... and the same class's plain to_dict(), which must stay the DEFAULT basic form whatever the format method compiled
    return (lambda v: call(W(v)).get("x")), (lambda v: W(v).to_dict().get("x"))


def _only_extra_null_keys(got, exp):
    """got equals exp except for additional dict keys whose value is None."""
    if type(got) is dict and type(exp) is dict:
        extra = [k for k in got if k not in exp]
        if any(got[k] is not None for k in extra) or any(k not in got for k in exp):
            return False
        if [k for k in got if k in exp] != list(exp):
            return False
        return all(_only_extra_null_keys(got[k], exp[k]) for k in exp)
    if type(got) is list and type(exp) is list:
        return len(got) == len(exp) and all(_only_extra_null_keys(a, b) for a, b in zip(got, exp))
    return ref.same(got, exp)


def space_nonsyntactic_nullable_field(d):
    """The schema has a dataclass field that can hold None although its annotation is not
    syntactically Optional[...] / None / Any and its default is not None."""
    def nullable(fd):
        return "null" in space.wire_kinds(fd)

    def syntactic(fd):
        return fd[0] in ("opt", "optpipe") or fd in (("leaf", "none"), ("leaf", "any"))
    k = d[0]
    if k == "dc":
        for fd, kind in d[2]:
            if kind != "none" and nullable(fd) and not syntactic(fd):
                return True
    if k in ("dcgen", "dcgeninh", "dcselfg") and nullable(d[1]):
        return True
    if k in ("dcinh", "dcself", "dcselft", "dcfwd", "dcmut") and nullable(d[1]) and not syntactic(d[1]):
        return True
    return any(space_nonsyntactic_nullable_field(c) for c in space.children(d))


def _format_self(res, d, fmt, o):
    from vmc import formats
    Mixin, to_name, _ = formats.mixin(fmt)
    ident = (lambda dd, **kw: dd)
    with space.Ctx(dc={"base": "_FMB"}) as ctx:
        ctx.ns["_FMB"] = Mixin
        try:
            space.hint(d, ctx)
            vals = space.values(d, ctx)
        except Exception as e:   # noqa: BLE001
            res.cases += 1
            res.violation(f"build-failed|{space.show(d)}|{fmt}|fself", "build-failed", e1.exc_class(e),
                          dict(desc=d, format=fmt, entry="fself", value_index=-1), repr(e)[:300])
            return
        for idx, v in enumerate(vals):
            res.cases += 1
            res.transitions += 1
            try:
                exp = ref.encode(d, v, ctx, o)
            except ref.Reject:
                continue
            r1 = e1.outcome(lambda: getattr(v, to_name)(encoder=ident))
            if r1[0] == "exc":
                res.violation(f"encode-raised|{space.show(d)}|{fmt}|fself|{e1.exc_class(r1[1])}", "encode-raised", e1.exc_class(r1[1]),
                              dict(desc=d, format=fmt, entry="fself", value_index=idx, facts=dict(nonsyntactic_nullable_field=space_nonsyntactic_nullable_field(d))),
                              f"{r1[1]!r:.300} value={v!r:.200}")
                continue
            if not ref.same(r1[1], exp):
                facts = dict(only_extra_null_keys=_only_extra_null_keys(r1[1], exp), nonsyntactic_nullable_field=space_nonsyntactic_nullable_field(d))
                res.violation(f"ref-encode-neq|{space.show(d)}|{fmt}|fself|neq", "ref-encode-neq", "neq",
                              dict(desc=d, format=fmt, entry="fself", value_index=idx, facts=facts),
                              f"value={v!r:.250} expected={exp!r:.250} got={r1[1]!r:.250}")
                continue
            res.outcomes["ok"] += 1
            res.nontrivial += 1


def run_case(unit):
    d, fmt = unit
    res = core.UnitResult()
    has_any = any(l in ("any", "sertype") for l in space.leaves_of(d))

    def V(clause, out, ep, idx, detail):
        res.violation(f"{clause}|{space.show(d)}|{fmt}|{ep}|{out}", clause, out,
                      dict(desc=d, format=fmt, entry=ep, value_index=idx), detail)

    with space.Ctx() as ctx:
        try:
            h = space.hint(d, ctx)
            vals = space.values(d, ctx)
        except Exception as e:
            V("build-failed", e1.exc_class(e), "hint", -1, repr(e))
            res.cases += 1
            return res
        o = ref.opts(native=ref.NATIVE.get(fmt, frozenset()), drop_none_fields=fmt == "toml")
        encs = {}
        if fmt == "default":
            eps = ("codec", "mixin", "nested")
        else:
            eps = ("codec", "fmixin")
        for ep in eps:
            if ep == "fmixin":
                r = e1.outcome(_format_mixin_encoder, fmt, h, ctx)
            else:
                r = e1.outcome(e1.EntryPoints, ep, h, ctx, default_dialect=_dialect(fmt))
            res.transitions += 1
            if r[0] == "exc":
                V("build-failed", e1.exc_class(r[1]), ep, -1, repr(r[1]))
                res.cases += 1
                continue
            if ep == "fmixin":
                encs["fmixin"], encs["fmixin_to_dict"] = r[1]
            else:
                encs[ep] = r[1].encode
        if fmt != "default" and d[0] in ("dc", "dcgeninh", "dcinh", "dcself", "dcselft", "dcfwd") and (d[0] != "dc" or d[1] != "plain"):
            # (an instance of an unspecialised generic class has no type arguments of its own: dcgen is left out)
            # the class itself built on the format mixin: its own to_<format>(encoder=identity)
            _format_self(res, d, fmt, o)
        for idx, v in enumerate(vals):
            try:
                exp = ref.encode(d, v, ctx, o)
            except ref.Reject:
                res.counters["ref_no_member"] += 1
                continue
            for ep, enc in encs.items():
                res.cases += 1
                if ep == "fmixin_to_dict":
                    try:
                        exp_d = ref.encode(d, v, ctx, ref.opts())
                    except ref.Reject:
                        continue
                    r1 = e1.outcome(enc, v)
                    res.transitions += 1
                    if r1[0] == "exc" or not ref.same(r1[1], exp_d):
                        res.violation(f"ref-encode-neq|{space.show(d)}|{fmt}|{ep}|neq", "ref-encode-neq", "neq",
                                      dict(desc=d, format=fmt, entry=ep, value_index=idx, facts={}),
                                      f"plain to_dict() of a class built on the {fmt} mixin: value={v!r:.200} expected={exp_d!r:.200} got={r1[1]!r:.200}")
                    else:
                        res.outcomes["ok"] += 1
                    continue
                r1 = e1.outcome(enc, v)
                res.transitions += 1
                if r1[0] == "exc":
                    V("encode-raised", e1.exc_class(r1[1]), ep, idx, f"{r1[1]!r:.300} value={v!r:.200}")
                    res.outcomes["encode-raised:" + e1.exc_class(r1[1])] += 1
                    continue
                got = r1[1]
                if ep == "nested":
                    _, a, b = got
                    if not ref.same(a, b):
                        V("nested-paths-differ", "neq", ep, idx, f"{a!r:.200} vs {b!r:.200}")
                        continue
                    got = a
                if ep == "fmixin" and fmt == "toml" and v is None:
                    # the holder's own field x is None and TOML drops null-valued fields
                    if got is not None:
                        V("toml-null-field-kept", "neq", ep, idx, f"{got!r:.200}")
                    else:
                        res.outcomes["ok"] += 1
                    continue
                if not ref.same(got, exp):
                    facts = dict(only_extra_null_keys=_only_extra_null_keys(got, exp),
                                 nonsyntactic_nullable_field=space_nonsyntactic_nullable_field(d))
                    res.violation(f"ref-encode-neq|{space.show(d)}|{fmt}|{ep}|neq", "ref-encode-neq", "neq",
                                  dict(desc=d, format=fmt, entry=ep, value_index=idx, facts=facts),
                                  f"value={v!r:.250} expected={exp!r:.250} got={got!r:.250}")
                    res.outcomes["ref-encode-neq"] += 1
                    continue
                if not ref.basic_only(got, NATIVE_TYPES[fmt]) and not has_any:
                    V("non-basic-type", "type", ep, idx, f"got={got!r:.300}")
                    continue
                if fmt == "default" and not has_any:
                    try:
                        json.dumps(got)
                    except Exception as e:
                        V("json-dumps-failed", e1.exc_class(e), ep, idx, f"{e!r} got={got!r:.250}")
                        continue
                res.outcomes["ok"] += 1
                if not ref.same(exp, v):
                    res.nontrivial += 1
                if idx == 1 and ep == "codec":
                    res.sample(dict(schema=space.show(d), dialect=fmt, value=repr(v)[:120], encoded=repr(got)[:120]), cap=1)
    res.states += 1
    return res


run_unit = run_case


def replay(case):
    res = run_case((core.detuple(case["desc"]), case["format"]))
    return [v for v in res.violations
            if v["case"]["entry"] == case["entry"] and v["case"]["value_index"] == case["value_index"]]
