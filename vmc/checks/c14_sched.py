"""C14 (b): schedules. Threads make first calls on one fresh class family; every interleaving up to
the preemption bound is executed; oracle = fresh eager twin (shared with the history model)."""
from __future__ import annotations

from vmc import core, family, sched

HARNESSES = {
    "lazy-pack-vs-unpack": ("nested", "lazy", True, [("from_dict", "n", "H"), ("to_dict", "n", "H")]),
    "lazy-same-op-twice": ("nested", "lazy", True, [("from_dict", "n", "H"), ("from_dict", "n", "H")]),
    "two-dialects-unpack": ("nested", "eager", True, [("from_dict", "D1", "H"), ("from_dict", "D2", "H")]),
    "two-dialects-pack": ("nested", "eager", True, [("to_dict", "D1", "H"), ("to_dict", "D2", "H")]),
    "postponed-dialect-vs-plain": ("nested", "postponed", True, [("to_dict", "D1", "H"), ("from_dict", "n", "H")]),
    "parent-vs-child": ("inherit", "postponed", True, [("to_dict", "n", "C0"), ("to_dict", "n", "C2")]),
    "child-vs-grandchild-dialect": ("inherit", "lazy", True, [("from_dict", "D1", "C"), ("from_dict", "D1", "C2")]),
    "two-specialisations-lazy": ("generic", "lazy", False, [("to_dict", "n", "HG"), ("from_dict", "n", "HG")]),
    "holder-vs-generic-postponed": ("generic", "postponed", False, [("to_dict", "n", "HG"), ("to_dict", "n", "G")]),
    "two-formats-lazy": ("formats", "lazy", False, [("to_jsonb", "n", "F"), ("to_msgpack", "n", "F")]),
    "format-vs-dialect-postponed": ("formats", "postponed", True, [("from_json", "n", "F"), ("to_dict", "D1", "F")]),
    "mutual-pair": ("mutual", "eager", False, [("to_dict", "n", "MA"), ("from_dict", "n", "MB")]),
    "disc-two-tags": ("disc", "eager", False, [("from_dict", "n", "Base"), ("from_dict", "n", "BaseB")]),
    "disc-holder-vs-base-lazy": ("disc", "lazy", False, [("from_dict", "n", "HD"), ("from_dict", "n", "BaseB")]),
    "disc-dialect-vs-plain": ("disc", "eager", True, [("from_dict", "D1", "Base"), ("from_dict", "n", "HD")]),
    "three-threads-lazy": ("nested", "lazy", False, [("from_dict", "n", "H"), ("to_dict", "n", "H"), ("from_dict", "n", "H")]),
}
_CODES = None
_FINE = None
# harnesses also explored with the finer scheduling points of sched.fine_lines() (every library line that reads or publishes
# shared state), preemption bound 1
FINE_QUICK = ("lazy-pack-vs-unpack", "two-dialects-unpack", "parent-vs-child", "two-formats-lazy", "disc-holder-vs-base-lazy")
MAX_EXECS = 40000    # per unit; a unit that hits it is reported as capped (exhaustive: false)


def units(tier):
    out = []
    for hid, spec in HARNESSES.items():
        three = len(spec[3]) == 3
        if tier == "quick":
            out.append(("sched", hid, 1, 0, 1))
            if hid in FINE_QUICK:
                out += [("sched", hid, 1, i, 2, "fine") for i in range(2)]
        else:
            if not three:
                out += [("sched", hid, 1, i, 4, "fine") for i in range(4)]
            bound = 1 if three else 2
            n = 4 if three else 32   # 32 shards keep a bound-2 shard far below UNIT_TIMEOUT on a loaded machine
            for i in range(n):
                out.append(("sched", hid, bound, i, n))
    # bound 3 is out of reach: `lazy-same-op-twice` has 316 schedules at bound 1, 35 938 at bound 2 and (estimated from the
    # growth) about 3.8 million at bound 3, 50 000 CPU-seconds. A unit that stops at MAX_EXECS is a sample, not a bound
    # completed, so no bound-3 unit is registered.
    return out


def _model(hid):
    from vmc.checks import c14
    fam, mode, support, ops = HARNESSES[hid]
    return c14.Model(fam, mode, support), ops


def _mk(hid):
    model, ops = _model(hid)
    exp = [model.expected((), op) for op in ops]     # also warms the input cache, outside the scheduler

    def make_bodies():
        f = model.initial()
        bodies = [(lambda op=op: model.apply(f, op)) for op in ops]
        return bodies, f

    def judge(results, f):
        details = []
        try:
            for tid, op in enumerate(ops):
                got = results.get(tid, ("exc", "NoResult", ""))
                if got != exp[tid]:
                    details.append(("outcome-neq-twin", f"thread {tid} op={op} got={got!r:.250} expected={exp[tid]!r:.250}"))
            for tid, op in enumerate(ops):
                got = model.apply(f, op)
                if got != exp[tid]:
                    details.append(("poisoned-state", f"sequential call after the threads: op={op} got={got!r:.250} "
                                                      f"expected={exp[tid]!r:.250}"))
        finally:
            f.dispose()
        return details
    return make_bodies, judge


def _fine():
    global _FINE
    if _FINE is None:
        _FINE = sched.fine_lines()
    return _FINE


def run_unit(unit):
    global _CODES
    if _CODES is None:
        _CODES = sched.traced_code_objects()
    _, hid, bound, shard, nshards = unit[:5]
    fine = _fine() if len(unit) > 5 else None
    res = core.UnitResult()
    make_bodies, judge = _mk(hid)
    if fine is not None:
        # warm the library's type-keyed lru_caches on one free-running execution, so that every controlled execution
        # takes the same lines
        bodies, f0 = make_bodies()
        for b in bodies:
            try:
                b()
            except Exception:    # noqa: BLE001
                pass
        f0.dispose()
    out = sched.explore(make_bodies, judge, bound, _CODES, shard=(shard, nshards), max_execs=MAX_EXECS, fine=fine)
    if fine is not None:
        res.counters["fine_schedules"] += out["execs"]
    res.cases = out["execs"]
    res.transitions = out["execs"] * len(HARNESSES[hid][3])
    res.states = out["execs"]
    res.nontrivial = out["with_preemption"]
    res.counters["schedules"] += out["execs"]
    res.counters["schedules_with_preemption"] += out["with_preemption"]
    res.counters["max_scheduling_points"] = 0
    res.counters["max_points_in_a_schedule"] = max(res.counters["max_points_in_a_schedule"], out["max_points"])
    res.capped = out["capped"]
    for k, v in out["outcomes"].items():
        res.outcomes["sched:" + hid + ":" + str(abs(hash(k)) % 10 ** 6)] += v
    seen = set()
    for schedule, detail, clause in out["violations"]:
        oc = detail.split("got=")[1][:40] if "got=" in detail else clause
        sig = f"{clause}|{hid}|{bound}|{oc}"
        if sig in seen:
            continue
        seen.add(sig)
        res.violation(sig, clause, oc, dict(unit=unit, schedule=schedule), f"schedule={schedule} {detail}")
    res.sample(dict(harness=hid, threads=[repr(o) for o in HARNESSES[hid][3]], preemption_bound=bound,
                    schedules=out["execs"], distinct_outcomes=len(out["outcomes"])))
    # every execution compiled a fresh class family that the library's lru_caches pin: release between units (never inside
    # one - a cold cache changes which lines a replayed prefix executes)
    core.release_caches()
    return res


def replay(case):
    global _CODES
    if _CODES is None:
        _CODES = sched.traced_code_objects()
    unit = core.detuple(case["unit"])
    make_bodies, judge = _mk(unit[1])
    results, trace, details = sched.replay_schedule(make_bodies, judge, list(case["schedule"]), _CODES,
                                                    fine=_fine() if len(unit) > 5 else None)
    return [dict(sig="replay", clause=d[0], outcome="", case=case, detail=d[1]) for d in details]
