"""C17 — Generated code is closed and binds every type by identity (engine E1)."""
import builtins
import collections
import copy
import dataclasses
import dis
import enum
import sys
import types
import typing
from dataclasses import field, make_dataclass

from vmc import core, e1, foreign, ref, space

PROPERTY = "C17"
ENGINE = "E1 schema-space"
RULE = ("every schema of the bounded grammar in module and <locals> naming, plus every functional / twin / subclass scenario x shape: "
        "(1) every compile unit the library execs is captured through sys.settrace and EVERY global name loaded anywhere in it (all paths, "
        "by enumeration of the bytecode) must resolve in its globals or builtins, module attribute chains must exist; (2) every path class "
        "is provoked (success, missing field, invalid value, extra keys, non-mapping, union/literal no-match, defaultdict missing key): no "
        "NameError / SyntaxError / AttributeError of the library's making anywhere in the exception chain, and every decoded object is an "
        "instance of the very class named in the annotation. Non-trivial: the schema contains a user-defined class.")
ASSUMPTIONS = ["generated code = frames whose co_filename is '<string>' (the library execs plain strings)",
               "scenario classes are created inside functions, by functional APIs, or twice under one qualified name"]
UNIT_TIMEOUT = 600
CHUNK = 8
USERISH = {"dc", "nt", "ntf", "td", "dcgen", "dcgeninh", "dcinh", "dcself", "dcselft", "dcfwd", "dcmut", "dcselfg", "newtype", "tvbound", "tvconstr"}
USER_LEAVES = {"enum_str", "enum_int", "intenum", "strenum", "flag", "intflag", "literal_enum", "newtype_int", "sertype", "asertype"}

KINDS = ("enum", "intenum", "flag", "strenum", "namedtuple", "typing_namedtuple", "typeddict", "make_dataclass", "make_dataclass_mixin",
         "newtype", "strsub", "listsub", "dictsub")
SHAPES = ("direct", "list", "dictval", "dictkey", "opt", "union_int", "union_first", "tuple", "defaultdict", "literal", "nested_dc", "set", "generic_base")
TWINS = ("dataclass", "enum", "namedtuple", "typeddict", "strsub")


def bounds(tier):
    return dict(tier=tier, grammar_schemas=len(_schemas(tier)), modes=["module", "local"], functional_kinds=list(KINDS), shapes=list(SHAPES),
                twin_kinds=list(TWINS), overridden_fields=dict(annotations=list(OVERRIDE_WRAPS), overrides=list(OVERRIDES)), definition_sites=["function-local", "functional API not bound to its module", "twin qualified name", "same __qualname__ in two modules", "distinct non-ASCII names of equal length"])


def _schemas(tier):
    maxd = 1 if tier == "quick" else 2
    out = [d for d in space.schemas(tier) if space.depth(d) <= maxd]
    if tier == "quick":
        # depth 2 where a user-defined class sits directly under any wrapper (Annotated, NewType, TypeVar, Optional, containers, ...)
        out += [d for d in space.schemas(tier) if space.depth(d) == 2 and any(c[0] in ("dc", "nt", "td", "ntf") for c in space.children(d))]
    return out


def units(tier):
    out = [("grammar", d, mode) for d in _schemas(tier) for mode in ("module", "local")]
    out += [("functional", k, s, site) for k in KINDS for s in SHAPES for site in ("local", "unbound")]
    out += [("twin", k, s) for k in TWINS for s in ("fields", "tuple", "union", "list_of_each")]
    # distinct classes whose names coincide only in part: the same __qualname__ in two modules; different non-ASCII names of equal length
    out += [("twin", k, s, naming) for k in TWINS for s in ("fields", "tuple", "union", "list_of_each", "generic_args")
            for naming in ("other-module", "nonascii", "nonascii-other-module") if not (s == "generic_args" and k in ("typeddict", "strsub"))]
    # the same string annotation (List["Item"]) written in two modules that each have their own class Item: typing hands out ONE
    # ForwardRef object for both spellings, yet each holder must get the Item of its own module - in either compile order
    out += [("fwdtwin", holder, spelling, order) for holder in ("typeddict", "dataclass", "namedtuple")
            for spelling in ('List["Item"]', 'Optional["Item"]', 'Dict[str, "Item"]') for order in ("a-first", "b-first")]
    # a field whose conversion is overridden: the (un)packer registry never visits the annotation, yet its rendered name is
    # still loaded by the error-reporting lines
    out += [("override", w, o) for w in OVERRIDE_WRAPS for o in OVERRIDES]
    return out


OVERRIDE_WRAPS = ("list585", "dict585", "tuple585", "set585", "List", "Dict", "Optional585", "mproxy", "nested585")
OVERRIDES = ("field_pass_through", "field_deserialize", "field_serialize", "field_strategy_dict", "config_strategy")


# ---- capture of generated code -----------------------------------------------------------------
class Capture:
    def __init__(self):
        self.units = []      # (code, globals, locals)
        self.seen = set()

    def tracer(self, frame, event, arg):
        co = frame.f_code
        if event == "call" and co.co_filename == "<string>" and id(co) not in self.seen:
            self.seen.add(id(co))
            self.units.append((co, frame.f_globals, frame.f_locals if co.co_name == "<module>" else None))
        return None

    def __enter__(self):
        sys.settrace(self.tracer)
        return self

    def __exit__(self, *a):
        sys.settrace(None)


def loads(co, top=True):
    """(kind, dotted name parts) for every global/name load in co and nested code objects."""
    ins = list(dis.get_instructions(co))
    i = 0
    while i < len(ins):
        x = ins[i]
        if x.opname in ("LOAD_GLOBAL", "LOAD_NAME"):
            parts = [x.argval]
            j = i + 1
            while j < len(ins) and ins[j].opname == "LOAD_ATTR":
                parts.append(ins[j].argval)
                j += 1
            yield x.opname, parts, top
        i += 1
    for c in co.co_consts:
        if isinstance(c, types.CodeType):
            yield from loads(c, False)


def unresolved(units):
    bad = []
    for co, g, loc in units:
        for op, parts, top in loads(co):
            name = parts[0]
            if name in g:
                obj = g[name]
            elif hasattr(builtins, name):
                continue
            elif top and loc is not None and name in loc:
                continue
            elif op == "LOAD_NAME" and not top:
                continue       # class-body style local name
            else:
                bad.append((co.co_name, ".".join(parts)))
                continue
            # attribute chains on modules must exist (AttributeError on a module is of the library's making)
            for a in parts[1:]:
                if isinstance(obj, types.ModuleType):
                    if not hasattr(obj, a):
                        bad.append((co.co_name, ".".join(parts)))
                        break
                    obj = getattr(obj, a)
                else:
                    break
    return bad


def _factory_unusable(f):
    """A default_factory must be None or a real class; a typing construct (typing.List[int], typing.Any, a NewType, ...) can
    never be called. Whether a real class can be built without arguments is the schema author's business."""
    if f is None:
        return None
    if isinstance(f, type) and f is not typing.Any:
        return None
    return f"{f!r} is not a class"


def _defaultdicts(x, depth=0):
    if isinstance(x, collections.defaultdict):
        yield x
    if depth > 6:
        return
    if isinstance(x, dict):
        for v in x.values():
            yield from _defaultdicts(v, depth + 1)
    elif isinstance(x, (list, tuple, set, frozenset, collections.deque)):
        for v in x:
            yield from _defaultdicts(v, depth + 1)
    elif dataclasses.is_dataclass(x) and not isinstance(x, type):
        for f in dataclasses.fields(x):
            yield from _defaultdicts(getattr(x, f.name), depth + 1)


BAD_EXC = (NameError, SyntaxError)


def library_made(e):
    """NameError / SyntaxError anywhere in the chain, or AttributeError raised about a module / class attribute lookup of
    generated code (not the documented non-dict detection, not attribute errors of user values)."""
    for x in e1.exc_chain(e):
        if isinstance(x, BAD_EXC):
            return f"{type(x).__name__}: {x}"
        if isinstance(x, AttributeError) and ("module '" in str(x) or "type object '" in str(x)):
            return f"AttributeError: {x}"
        if isinstance(x, TypeError) and "is not callable" in str(x) and "typing" in str(x):
            return f"TypeError: {x}"
    return None


# ---- grammar schemas ---------------------------------------------------------------------------
def _dd_value_kind(d):
    """kind of the value annotation of the first defaultdict in d ('plain-class' when a bare class would do)."""
    if d[0] == "defaultdict":
        v = d[2]
        if v[0] == "leaf":
            t = space.LEAVES[v[1]][0]
            return "plain-class" if isinstance(t, type) else "non-class-leaf"
        return v[0]
    for c in space.children(d):
        k = _dd_value_kind(c)
        if k:
            return k
    return None


def run_grammar(unit):
    _, d, mode = unit
    res = core.UnitResult()

    def V(clause, oc, detail):
        res.violation(f"{clause}|{space.show(d)}|{mode}|{oc}", clause, oc, dict(unit=unit), detail)
    with space.Ctx(mode=mode) as ctx, Capture() as cap:
        try:
            h = space.hint(d, ctx)
            vals = space.values(d, ctx)
            eps = [e1.EntryPoints(k, h, ctx) for k in ("codec", "mixin")]
        except Exception as e:   # noqa: BLE001
            sys.settrace(None)
            res.cases += 1
            lm = library_made(e)
            V("build-failed", type(e).__name__, f"{type(e).__name__}: {e!s:.200}" + (f" [{lm}]" if lm else ""))
            return res
        o = ref.opts()
        for E in eps:
            for v in space.pick(vals, 3):
                res.cases += 1
                res.transitions += 2
                r = e1.outcome(E.encode, v)
                if r[0] == "exc":
                    lm = library_made(r[1])
                    if lm:
                        V("library-made-error", lm.split(":")[0], f"encode value={v!r:.150} {lm}")
                    continue
                r2 = e1.outcome(E.decode, r[1])
                if r2[0] == "exc":
                    lm = library_made(r2[1])
                    if lm:
                        V("library-made-error", lm.split(":")[0], f"decode input={r[1]!r:.150} {lm}")
                elif not ref.conforms(d, r2[1], ctx):
                    V("not-the-annotated-class", "type", f"value={v!r:.150} back={r2[1]!r:.150}")
                else:
                    for dd in _defaultdicts(r2[1]):
                        e = _factory_unusable(dd.default_factory)
                        if e:
                            res.violation(f"defaultdict-factory-broken|{space.show(d)}|{mode}", "defaultdict-factory-broken", "TypeError",
                                          dict(unit=unit, facts=dict(site="grammar", defaultdict_value=_dd_value_kind(d))),
                                          f"default_factory {dd.default_factory!r} of the decoded defaultdict cannot be called: {e}")
                            break
            # error paths: every pool member as input and structural mutations of one encoding
            try:
                encs = [ref.encode(d, vals[0], ctx, o)]
            except ref.Reject:
                encs = []
            for label, x in foreign.mutations(encs, max_positions=6):
                if label[0] == "sub" and label[3] not in (0, 4, 10, 14, 19):
                    continue
                res.cases += 1
                res.transitions += 1
                r = e1.outcome(E.decode, x)
                if r[0] == "exc":
                    lm = library_made(r[1])
                    if lm:
                        V("library-made-error", lm.split(":")[0], f"decode input={x!r:.150} {lm}")
                    res.outcomes["raised"] += 1
                else:
                    res.outcomes["returned"] += 1
    bad = unresolved(cap.units)
    res.counters["code_units_checked"] += len(cap.units)
    res.transitions += len(cap.units)
    for fn, name in bad[:5]:
        V("name-unresolved", "static", f"generated function {fn} loads {name} which is neither in its globals nor a builtin")
    if space.has_kind(d, USERISH) or any(l in USER_LEAVES for l in space.leaves_of(d)):
        res.nontrivial += res.cases
    res.sample(dict(schema=space.show(d), mode=mode, compile_units=len(cap.units)), cap=1)
    res.states += 1
    return res


# ---- functional / local / twin scenarios -----------------------------------------------------
def make_kind(kind, name, modname, tag=0):
    """-> (type, [values], wire_of(value)) created without binding the class to a module attribute."""
    from mashumaro import DataClassDictMixin
    if kind == "enum":
        T = enum.Enum(name, {"A": f"a{tag}", "B": f"b{tag}"}, module=modname)
        return T, [T.A, T.B], lambda v: v.value
    if kind == "intenum":
        T = enum.IntEnum(name, {"A": 1 + tag, "B": 20 + tag}, module=modname)
        return T, [T.A, T.B], lambda v: v.value
    if kind == "strenum":
        T = enum.StrEnum(name, {"A": f"a{tag}", "B": f"b{tag}"}, module=modname)
        return T, [T.A, T.B], lambda v: v.value
    if kind == "flag":
        T = enum.Flag(name, {"R": 1, "W": 2}, module=modname)
        return T, [T.R, T.R | T.W], lambda v: v.value
    if kind == "namedtuple":
        T = collections.namedtuple(name, ["a", "b"], module=modname)
        T.__annotations__ = {"a": int, "b": str}
        return T, [T(1 + tag, "x")], lambda v: [v.a, v.b]
    if kind == "typing_namedtuple":
        T = typing.NamedTuple(name, [("a", int), ("b", str)])
        T.__module__ = modname
        return T, [T(1 + tag, "x")], lambda v: [v.a, v.b]
    if kind == "typeddict":
        T = typing.TypedDict(name, {"a": int})
        T.__module__ = modname
        return T, [{"a": 1 + tag}], lambda v: dict(v)
    if kind in ("make_dataclass", "make_dataclass_mixin"):
        bases = (DataClassDictMixin,) if kind.endswith("mixin") else ()
        T = make_dataclass(name, [("a", int), ("t", int, field(default=tag))], bases=bases, namespace={"__module__": modname}, module=modname)
        return T, [T(1), T(2, 5)], lambda v: {"a": v.a, "t": v.t}
    if kind == "newtype":
        T = typing.NewType(name, int)
        T.__module__ = modname
        return T, [3 + tag], lambda v: v
    if kind == "strsub":
        T = type(name, (str,), {"__module__": modname, "tag": tag})
        return T, [T("s")], lambda v: str(v)
    if kind == "intsub":
        T = type(name, (int,), {"__module__": modname, "tag": tag})
        return T, [T(4)], lambda v: int(v)
    if kind == "listsub":
        T = type(name, (list,), {"__module__": modname})
        return T, [T([1, 2])], lambda v: list(v)
    if kind == "dictsub":
        T = type(name, (dict,), {"__module__": modname})
        return T, [T(a=1)], lambda v: dict(v)
    raise ValueError(kind)


def is_exact(kind, T, x):
    if kind == "typeddict":
        return type(x) is dict
    if kind == "newtype":
        return type(x) is int
    if kind in ("strsub", "intsub", "listsub", "dictsub"):
        # a subclass of a builtin is (de)serialized as that builtin: the canonical concrete class is the base
        return type(x) is T or type(x) in T.__mro__[1:-1]
    return type(x) is T


def shape_of(shape, T, vals, kind, ctx=None):
    """-> (hint, value, extract(result) -> list of objects that must be instances of T), or None"""
    v = vals[0]
    hashable = kind in ("enum", "intenum", "flag", "strenum", "namedtuple", "typing_namedtuple", "newtype", "strsub", "intsub")
    if shape == "direct":
        return T, v, lambda r: [r]
    if shape == "list":
        return typing.List[T], list(vals), lambda r: list(r)
    if shape == "dictval":
        return typing.Dict[str, T], {"k": v}, lambda r: list(r.values())
    if shape == "dictkey":
        if kind not in ("enum", "intenum", "strenum", "newtype", "strsub", "intsub"):
            return None
        return typing.Dict[T, int], {v: 1}, lambda r: list(r.keys())
    if shape == "opt":
        return typing.Optional[T], v, lambda r: [r]
    if shape == "union_int":
        if kind in ("intenum", "newtype", "intsub", "flag"):
            return typing.Union[str, T], v, lambda r: [r]
        return typing.Union[int, T], v, lambda r: [r]
    if shape == "union_first":
        return typing.Union[T, None, bytes], v, lambda r: [r]
    if shape == "tuple":
        return typing.Tuple[T, int], (v, 1), lambda r: [r[0]]
    if shape == "defaultdict":
        return typing.DefaultDict[str, T], collections.defaultdict(T if isinstance(T, type) else None, {"k": v}), lambda r: list(r.values())
    if shape == "literal":
        if kind not in ("enum", "intenum", "strenum", "flag"):
            return None
        return typing.Literal[vals[0]], vals[0], lambda r: [r]
    if shape == "set":
        if not hashable:
            return None
        return typing.Set[T], set(vals), lambda r: list(r)
    if shape == "nested_dc":
        Inner = make_dataclass("InnerDC", [("v", T), ("w", typing.List[T], field(default_factory=list))],
                               namespace={"__module__": ctx.modname}, module=ctx.modname)
        ctx.ns["InnerDC"] = Inner      # the helper class itself is an ordinary module-level class
        return Inner, Inner(v, [v]), lambda r: [r.v] + list(r.w)
    if shape == "generic_base":
        # the class is the argument of a generic base: fields annotated with the TypeVar resolve to it
        ctx.ns["T"] = typing.TypeVar("T")
        ctx.ns["Generic"] = typing.Generic
        G = ctx.execute("GB", "@dataclass\nclass GB(Generic[T]):\n    v: T\n    w: List[T] = field(default_factory=list)\n")
        C = make_dataclass("CB", [], bases=(G[T],), namespace={"__module__": ctx.modname}, module=ctx.modname)
        ctx.ns["CB"] = C
        return C, C(v, [v]), lambda r: [r.v] + list(r.w)
    raise ValueError(shape)


def provoke(res, V, h, value, extract, kind, T, ctx, label):
    ctxmod = ctx.modname
    from mashumaro import DataClassDictMixin
    from mashumaro.codecs.basic import BasicDecoder, BasicEncoder
    with Capture() as cap:
        try:
            W = make_dataclass("W", [("x", h), ("y", typing.Optional[h], field(default=None))], bases=(DataClassDictMixin,),
                               namespace={"__module__": ctxmod}, module=ctxmod)
            ctx.ns["W"] = W
            enc, dec = BasicEncoder(h), BasicDecoder(h)
        except Exception as e:   # noqa: BLE001
            sys.settrace(None)
            res.cases += 1
            lm = library_made(e)
            V("build-failed", type(e).__name__, f"{label}: {type(e).__name__}: {e!s:.200}" + (f" [{lm}]" if lm else ""))
            return
        paths = [("codec", enc.encode, dec.decode), ("mixin", lambda v: W(v).to_dict()["x"], lambda x: W.from_dict({"x": x}).x)]
        for ep, E, D in paths:
            res.cases += 1
            res.transitions += 2
            r = e1.outcome(E, value)
            if r[0] == "exc":
                lm = library_made(r[1])
                V("library-made-error" if lm else "roundtrip-raised", type(r[1]).__name__, f"{label} {ep} encode: {r[1]!r:.200}")
                continue
            r2 = e1.outcome(D, r[1])
            if r2[0] == "exc":
                lm = library_made(r2[1])
                # the VALID document failed (the error paths below are a separate matter: F-CLASS-NOT-MODULE-ATTRIBUTE covers
                # the message-building code of dataclass kinds, not their conversion)
                V("library-made-error-on-valid-input" if lm else "roundtrip-raised", (lm or type(r2[1]).__name__).split(":")[0],
                  f"{label} {ep} decode({r[1]!r:.100}): {lm or repr(r2[1])[:200]}")
                continue
            try:
                objs = extract(r2[1])
            except Exception as e:   # noqa: BLE001
                V("not-the-annotated-class", "shape", f"{label} {ep}: result {r2[1]!r:.150} ({e!r})")
                continue
            wrong = [x for x in objs if not is_exact(kind, T, x)]
            if wrong:
                V("not-the-annotated-class", "type", f"{label} {ep}: {wrong[0]!r} is {type(wrong[0]).__module__}.{type(wrong[0]).__qualname__}"
                                                     f" (id {id(type(wrong[0]))}) not the annotated class (id {id(T)})")
                continue
            res.outcomes["ok"] += 1
            res.nontrivial += 1
            # error paths
            for x in foreign.POOL[:8] + [{}]:
                res.transitions += 1
                r3 = e1.outcome(D, x)
                if r3[0] == "exc":
                    lm = library_made(r3[1])
                    if lm:
                        V("library-made-error", lm.split(":")[0], f"{label} {ep} decode({x!r}): {lm}")
            for dd in _defaultdicts(r2[1]):
                e = _factory_unusable(dd.default_factory)
                if e:
                    V("defaultdict-factory-broken", "TypeError", f"{label} {ep}: default_factory {dd.default_factory!r}: {e}")
                    break
    for fn, name in unresolved(cap.units)[:3]:
        V("name-unresolved", "static", f"{label}: generated function {fn} loads {name} which is neither in its globals nor a builtin")
    res.counters["code_units_checked"] += len(cap.units)


def run_functional(unit):
    _, kind, shape, site = unit
    res = core.UnitResult()

    def V(clause, oc, detail):
        res.violation(f"{clause}|{kind}|{shape}|{site}|{oc}", clause, oc, dict(unit=unit, facts=dict(kind=kind, shape=shape, site=site)), detail)
    with space.Ctx() as ctx:
        name = "Fn" + kind.title().replace("_", "")
        try:
            T, vals, wire = make_kind(kind, name, ctx.modname)
        except Exception as e:   # noqa: BLE001
            res.counters["kind_not_constructible"] += 1
            return res
        if site == "local":
            try:
                T.__qualname__ = f"make.<locals>.{name}"
            except (AttributeError, TypeError):
                res.counters["qualname_not_settable"] += 1
        sh = shape_of(shape, T, vals, kind, ctx)
        if sh is None:
            res.counters["shape_not_applicable"] += 1
            return res
        h, value, extract = sh
        provoke(res, V, h, value, extract, kind, T, ctx, f"{kind}/{shape}/{site}")
    res.sample(dict(kind=kind, shape=shape, site=site))
    res.states += 1
    return res


class _second_module:
    def __init__(self, ctx):
        self.name = ctx.modname + "_b"

    def __enter__(self):
        import types as _types
        self.mod = _types.ModuleType(self.name)
        sys.modules[self.name] = self.mod
        return self.mod

    def __exit__(self, *a):
        sys.modules.pop(self.name, None)
        return False


def run_twin(unit):
    _, kind, shape = unit[:3]
    naming = unit[3] if len(unit) > 3 else "same-name"
    site = "twin" if naming == "same-name" else "twin-" + naming
    res = core.UnitResult()

    def V(clause, oc, detail):
        res.violation(f"{clause}|{site}|{kind}|{shape}|{oc}", clause, oc, dict(unit=unit, facts=dict(kind=kind, shape=shape, site=site)), detail)
    from mashumaro import DataClassDictMixin
    from mashumaro.codecs.basic import BasicDecoder, BasicEncoder
    k2 = {"dataclass": "make_dataclass", "enum": "enum", "namedtuple": "namedtuple", "typeddict": "typeddict", "strsub": "strsub"}[kind]
    with space.Ctx() as ctx, _second_module(ctx) as mod2:
        n1, n2 = ("X", "X") if not naming.startswith("nonascii") else ("\u0417\u0430\u043a\u0430\u0437", "\u0422\u043e\u0432\u0430\u0440")
        m2 = mod2.__name__ if naming.endswith("other-module") else ctx.modname
        T1, v1, _ = make_kind(k2, n1, ctx.modname, tag=0)
        T2, v2, _ = make_kind(k2, n2, m2, tag=1)
        setattr(ctx.mod, n1, T1)     # with one shared name in one module the module attribute can only name one of them
        if naming != "same-name":
            setattr(mod2 if naming.endswith("other-module") else ctx.mod, n2, T2)     # here both are importable by their own names
        if shape == "generic_args":
            # two specialisations of one generic dataclass whose arguments are the two classes
            ctx.ns["T"] = typing.TypeVar("T")
            ctx.ns["Generic"] = typing.Generic
            G = ctx.execute("G", "@dataclass\nclass G(Generic[T]):\n    x: T\n    xs: List[T]\n")
            h = make_dataclass("Pair", [("p", G[T1]), ("q", G[T2])], namespace={"__module__": ctx.modname}, module=ctx.modname)
            ctx.ns["Pair"] = h
            value = h(G(v1[0], list(v1)), G(v2[0], list(v2)))
            extract = lambda r: [(r.p.x, T1), (r.q.x, T2)] + [(x, T1) for x in r.p.xs] + [(x, T2) for x in r.q.xs]   # noqa: E731
        elif shape == "fields":
            h = make_dataclass("Pair", [("p", T1), ("q", T2)], namespace={"__module__": ctx.modname}, module=ctx.modname)
            ctx.ns["Pair"] = h
            value = h(v1[0], v2[0])
            extract = lambda r: [(r.p, T1), (r.q, T2)]   # noqa: E731
        elif shape == "tuple":
            h = typing.Tuple[T1, T2]
            value = (v1[0], v2[0])
            extract = lambda r: [(r[0], T1), (r[1], T2)]   # noqa: E731
        elif shape == "union":
            h = typing.Tuple[typing.Union[int, T2], typing.Union[int, T1]]
            value = (v2[0], v1[0])
            extract = lambda r: [(r[0], T2), (r[1], T1)]   # noqa: E731
        else:
            h = typing.Tuple[typing.List[T1], typing.List[T2]]
            value = (list(v1), list(v2))
            extract = lambda r: [(x, T1) for x in r[0]] + [(x, T2) for x in r[1]]   # noqa: E731
        with Capture() as cap:
            try:
                W = make_dataclass("W", [("x", h)], bases=(DataClassDictMixin,), namespace={"__module__": ctx.modname},
                                   module=ctx.modname)
                ctx.ns["W"] = W
                enc, dec = BasicEncoder(h), BasicDecoder(h)
            except Exception as e:   # noqa: BLE001
                sys.settrace(None)
                res.cases += 1
                V("build-failed", type(e).__name__, f"{type(e).__name__}: {e!s:.200}")
                return res
            for ep, E, D in (("codec", enc.encode, dec.decode),
                             ("mixin", lambda v: W(v).to_dict()["x"], lambda x: W.from_dict({"x": x}).x)):
                res.cases += 1
                res.transitions += 2
                r = e1.outcome(lambda: D(E(value)))
                if r[0] == "exc":
                    lm = library_made(r[1])
                    V("library-made-error" if lm else "roundtrip-raised", type(r[1]).__name__, f"{ep}: {r[1]!r:.200}")
                    continue
                wrong = [(x, T) for x, T in extract(r[1]) if (type(x) is not T and kind not in ("typeddict", "strsub"))]
                if wrong:
                    V("not-the-annotated-class", site, f"{ep}: {wrong[0][0]!r} has class id {id(type(wrong[0][0]))}, annotation is id {id(wrong[0][1])} "
                                                         f"(both named {wrong[0][1].__module__}.{wrong[0][1].__qualname__})")
                    continue
                if kind in ("dataclass",) and [getattr(x, "t", None) for x, _ in extract(r[1])] != [getattr(x, "t", None) for x, _ in extract(value)]:
                    V("not-the-annotated-class", "twin-default", f"{ep}: {r[1]!r}")
                    continue
                res.outcomes["ok"] += 1
                res.nontrivial += 1
        for fn, name in unresolved(cap.units)[:3]:
            V("name-unresolved", "static", f"generated function {fn} loads {name}")
        res.counters["code_units_checked"] += len(cap.units)
    res.sample(dict(twin_kind=kind, shape=shape))
    res.states += 1
    return res


def run_override(unit):
    from mashumaro import DataClassDictMixin, pass_through
    from mashumaro.config import BaseConfig
    from mashumaro.exceptions import InvalidFieldValue, MissingField
    from vmc import tmod
    _, wrap, how = unit
    res = core.UnitResult()

    def V(clause, oc, detail):
        res.violation(f"{clause}|override|{wrap}|{how}|{oc}", clause, oc, dict(unit=unit, facts=dict(site="override", wrap=wrap, how=how)), detail)
    X = tmod.Pt        # a user class of another module (vmc.tmod), reachable by its dotted name
    H = {"list585": list[X], "dict585": dict[str, X], "tuple585": tuple[X, ...], "set585": set[X], "List": typing.List[X],
         "Dict": typing.Dict[str, X], "Optional585": typing.Optional[list[X]], "mproxy": types.MappingProxyType[str, X],
         "nested585": dict[str, list[X]]}[wrap]
    good = {"list585": [X(1, 2)], "dict585": {"k": X(1, 2)}, "tuple585": (X(1, 2),), "set585": {X(1, 2)}, "List": [X(1, 2)],
            "Dict": {"k": X(1, 2)}, "Optional585": [X(1, 2)], "mproxy": types.MappingProxyType({"k": X(1, 2)}),
            "nested585": {"k": [X(1, 2)]}}[wrap]
    meta, cfg = {}, {}

    def boom(v):
        raise ValueError("rejected by the user function")
    if how == "field_pass_through":
        meta = {"serialization_strategy": pass_through}
    elif how == "field_deserialize":
        meta = {"deserialize": boom}
    elif how == "field_serialize":
        meta = {"serialize": lambda v: v, "deserialize": boom}
    elif how == "field_strategy_dict":
        meta = {"serialization_strategy": {"serialize": lambda v: v, "deserialize": boom}}
    else:
        cfg = {"serialization_strategy": {H: {"serialize": lambda v: v, "deserialize": boom}}}
    with space.Ctx() as ctx, Capture() as cap:
        try:
            Cfg = type("Config", (BaseConfig,), cfg)
            W = make_dataclass("OW", [("n", int), ("x", H, field(metadata=meta)), ("y", typing.Optional[H], field(default=None, metadata=meta))],
                               bases=(DataClassDictMixin,), namespace={"Config": Cfg, "__module__": ctx.modname}, module=ctx.modname)
            ctx.ns["OW"] = W
        except Exception as e:   # noqa: BLE001
            sys.settrace(None)
            res.cases += 1
            V("build-failed", type(e).__name__, f"{type(e).__name__}: {e!s:.200}")
            return res
        probes = [("missing-x", {"n": 1}, MissingField), ("missing-n", {"x": good}, MissingField), ("invalid-n", {"n": "zz", "x": good}, InvalidFieldValue)]
        if how != "field_pass_through":
            probes.append(("invalid-x", {"n": 1, "x": good}, InvalidFieldValue))
            probes.append(("invalid-y", {"n": 1, "x": good, "y": good}, InvalidFieldValue))
        for name, d, want in probes:
            res.cases += 1
            res.transitions += 1
            r = e1.outcome(W.from_dict, d)
            if r[0] == "ok":
                if how == "field_pass_through" or name.startswith("missing"):
                    V("unexpected-success", name, f"{name}: {r[1]!r:.150}")
                continue
            lm = library_made(r[1])
            if lm:
                V("library-made-error", lm.split(":")[0], f"{name}: expected {want.__name__}, got {lm}")
            elif not isinstance(r[1], want):
                V("wrong-error", type(r[1]).__name__, f"{name}: expected {want.__name__}, got {r[1]!r:.150}")
            else:
                res.outcomes["documented-error"] += 1
                res.nontrivial += 1
        r = e1.outcome(lambda: W(1, good).to_dict())
        res.cases += 1
        if r[0] == "exc" and library_made(r[1]):
            V("library-made-error", type(r[1]).__name__, f"to_dict: {library_made(r[1])}")
    for fn, name in unresolved(cap.units)[:3]:
        V("name-unresolved", "static", f"generated function {fn} loads {name} which is neither in its globals nor a builtin")
    res.counters["code_units_checked"] += len(cap.units)
    res.sample(dict(override=how, annotation=wrap))
    res.states += 1
    return res


def run_fwdtwin(unit):
    _, holder, spelling, order = unit
    res = core.UnitResult()
    from mashumaro.codecs.basic import BasicDecoder, BasicEncoder

    def V(clause, oc, detail):
        res.violation(f"{clause}|fwdtwin|{holder}|{spelling}|{order}|{oc}", clause, oc,
                      dict(unit=unit, facts=dict(kind=holder, shape=spelling, site="fwdtwin")), detail)
    head = {"typeddict": "class Box(TypedDict):\n", "dataclass": "@dataclass\nclass Box:\n", "namedtuple": "class Box(NamedTuple):\n"}[holder]
    with space.Ctx() as ctx, _second_module(ctx) as mod2:
        mod2.__dict__.update({k: v for k, v in ctx.ns.items() if not k.startswith("__")})
        for ns, tag in ((ctx.ns, 1), (mod2.__dict__, 2)):
            src = (f"@dataclass\nclass Item:\n    a: int\n    t: int = {tag}\n" + head + f"    items: {spelling}\n")
            exec(compile(src, f"<{ns['__name__']}>", "exec", dont_inherit=True), ns)
            ns["Item"].__module__ = ns["Box"].__module__ = ns["__name__"]
        mods = [ctx.ns, mod2.__dict__]
        if order == "b-first":
            mods.reverse()
        wire_item = {"a": 5}
        wire = {"List": [wire_item], "Optional": wire_item, "Dict[str,": {"k": wire_item}}[spelling.split("[")[0] if not spelling.startswith("Dict") else "Dict[str,"]
        doc = {"items": wire} if holder != "namedtuple" else [wire]
        for ns in mods:
            res.cases += 1
            res.transitions += 2
            Box, Item = ns["Box"], ns["Item"]
            r = e1.outcome(lambda: BasicDecoder(Box).decode(copy.deepcopy(doc)))
            if r[0] == "exc":
                lm = library_made(r[1])
                V("library-made-error" if lm else "roundtrip-raised", type(r[1]).__name__, f"module {ns['__name__'][-2:]}: {r[1]!r:.200}")
                continue
            got = r[1]["items"] if holder == "typeddict" else got_attr(r[1])
            objs = list(got.values()) if isinstance(got, dict) else (list(got) if isinstance(got, list) else [got])
            wrong = [o for o in objs if type(o) is not Item]
            if wrong:
                V("not-the-annotated-class", "fwdtwin", f"holder of module ..{ns['__name__'][-2:]} ({order}) built {type(wrong[0]).__module__[-2:]}.Item "
                                                        f"(t={getattr(wrong[0], 't', None)}) instead of the Item its own annotation names")
                continue
            back = e1.outcome(lambda: BasicEncoder(Box).encode(r[1]))
            if back[0] == "exc" or (back[1]["items"] if holder != "namedtuple" else back[1][0]) != {"List": [dict(a=5, t=objs[0].t)], "Optional": dict(a=5, t=objs[0].t),
                                                                                                 "Dict[str,": {"k": dict(a=5, t=objs[0].t)}}[spelling.split("[")[0] if not spelling.startswith("Dict") else "Dict[str,"]:
                V("roundtrip-raised" if back[0] == "exc" else "not-the-annotated-class", "fwdtwin-encode", f"{back[1]!r:.200}")
                continue
            res.outcomes["ok"] += 1
            res.nontrivial += 1
    res.sample(dict(holder=holder, spelling=spelling, order=order))
    res.states += 1
    return res


def got_attr(x):
    return x.items if not isinstance(x, tuple) else x[0]


def run_unit(unit):
    if unit[0] == "fwdtwin":
        return run_fwdtwin(unit)
    return {"grammar": run_grammar, "functional": run_functional, "twin": run_twin, "override": run_override}[unit[0]](unit)


def replay(case):
    u = core.detuple(case["unit"])
    return run_unit(u).violations
