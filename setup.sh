#!/bin/sh
# Offline setup: jsonschema (+deps) for the C06/C20 validator, from the local wheelhouse only.
set -e
cd /verif
if [ ! -d .deps/jsonschema ]; then
  rm -rf .deps
  PIP_NO_INDEX=1 /venv/bin/pip install --quiet --no-index --find-links /opt/veriftools/wheels --target /verif/.deps \
      jsonschema referencing rpds_py attrs jsonschema_specifications >/dev/null 2>&1 || \
  PIP_NO_INDEX=1 /venv/bin/pip install --no-index --find-links /opt/veriftools/wheels --target /verif/.deps jsonschema
  rm -rf .deps/typing_extensions* .deps/__pycache__
fi
/venv/bin/python -c "import sys; sys.path.append('/verif/.deps'); import jsonschema, referencing, rpds; print('jsonschema ok')"
