#!/bin/sh
# tools/run_all.sh [quick|thorough] : every registered check in sequence, one summary line each
T=${1:-quick}
cd /verif
for c in C01 C02 C03 C04 C05 C06 C07 C08 C09 C10 C11 C12 C13 C14 C15 C16 C17 C18 C19 C20; do
  ./check $c --tier $T > /tmp/runall_$c.log 2>&1; rc=$?
  echo "exit=$rc $(grep '^\[' /tmp/runall_$c.log | tail -1)"
done
