"""Developer aid: run a check and print violation classes grouped by clause/outcome/shape."""
import collections, importlib, multiprocessing as mp, os, sys
sys.path.insert(0, os.path.dirname(os.path.dirname(os.path.abspath(__file__))))
from vmc import core
core.setup_paths()
modname = f"vmc.checks.{sys.argv[1].lower()}"; tier = sys.argv[2] if len(sys.argv) > 2 else "quick"
limit = int(sys.argv[3]) if len(sys.argv) > 3 else None
mod = importlib.import_module(modname)
units = mod.units(tier)
if limit: units = units[:limit]
def run(i):
    try:
        return mod.run_unit(units[i]).violations
    except Exception as e:
        import traceback
        return [dict(sig="HARNESS", clause="harness", outcome=type(e).__name__, case=units[i], detail=traceback.format_exc()[-800:])]
if __name__ == "__main__":
    sys.setrecursionlimit(getattr(mod, "RECLIMIT", 2000))
    with mp.get_context("fork").Pool(16) as p:
        groups = collections.defaultdict(list)
        for vs in p.imap_unordered(run, range(len(units)), chunksize=4):
            for v in vs:
                key = (v["clause"], v["outcome"], v["detail"][:50] if os.environ.get("FINE") else "")
                groups[key].append(v)
    for key, vs in sorted(groups.items(), key=lambda kv: -len(kv[1])):
        print(f"=== {key} n={len(vs)}")
        for v in vs[: int(os.environ.get("N", 3))]:
            print("   ", core.jsonable(v["case"]), "\n       ", v["detail"][:400])
