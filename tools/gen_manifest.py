"""Regenerates MANIFEST.json from tools/manifest_table.py (keeps the file valid at all times)."""
import json, os, sys
ROOT = os.path.dirname(os.path.dirname(os.path.abspath(__file__)))
sys.path.insert(0, os.path.join(ROOT, "tools"))
import manifest_table as T

props = [json.loads(l)["id"] for l in open(os.path.join(ROOT, "properties.jsonl"))]
checks = []
for pid in props:
    if pid not in T.CHECKS:
        continue
    c = T.CHECKS[pid]
    checks.append(dict(
        property_id=pid,
        quick_cmd=f"./check {pid} --tier quick",
        thorough_cmd=f"./check {pid} --tier thorough",
        evidence_file=f"/verif/evidence/{pid}.json",
        replay_cmd_template=f"./check {pid} --replay {{path}}",
        engine=c["engine"],
        level_claimed=dict(category="model_checking", text=c["text"], design_ref=c["design_ref"]),
        level_note=c["note"],
        technique=c["technique"],
    ))
na = [dict(property_id=p, reason=T.NOT_APPLICABLE.get(p, "check not built yet in this session; see DESIGN.md section 10"))
      for p in props if p not in T.CHECKS]
m = dict(
    version=1,
    setup_cmd=T.SETUP,
    hooks=dict(guard="MASHUMARO_VERIF", enable="no hooks: checks import /repo's working tree as it is (editable install in /venv)",
               baseline_off_cmd="cd /repo && /venv/bin/python -m pytest -ra -q -p no:cacheprovider --timeout=900 --continue-on-collection-errors",
               source_commits=[], add_only=True),
    engines=T.ENGINES,
    checks=checks,
    notes=T.NOTES,
    not_applicable=na,
)
json.dump(m, open(os.path.join(ROOT, "MANIFEST.json"), "w"), indent=1)
print("checks:", [c["property_id"] for c in checks], "not_applicable:", [n["property_id"] for n in na])
