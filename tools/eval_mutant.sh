#!/bin/sh
# tools/eval_mutant.sh <worktree> <seeded-id> <check ids...>
# Confirms a sub-agent's property-breaking change (suite green with it, demo fails with it and passes without it),
# runs the named checks against it through VMC_REPO, and stores everything under /verif/seeded/<id>/.
WT=$1; ID=$2; shift 2
OUT=/verif/seeded/$ID; mkdir -p $OUT
cp $WT/_mutant/patch.diff $WT/_mutant/demo.py $WT/_mutant/meta.json $OUT/ 2>/dev/null
git -C $WT diff -- mashumaro > $OUT/patch.diff
( cd $WT && PYTHONPATH=$WT /venv/bin/python -m pytest -q -p no:cacheprovider -n 8 tests 2>&1 | tail -1 ) > $OUT/suite_with_change.txt
( cd $WT && PYTHONPATH=$WT /venv/bin/python _mutant/demo.py > $OUT/demo_with_change.txt 2>&1; echo "exit=$?" >> $OUT/demo_with_change.txt )
( cd /repo && PYTHONPATH=/repo /venv/bin/python $OUT/demo.py > $OUT/demo_without_change.txt 2>&1; echo "exit=$?" >> $OUT/demo_without_change.txt )
: > $OUT/checks.txt
for c in "$@"; do
  ( cd ${VERIF:-/verif} && VMC_REPO=$WT ./check $c --tier quick 2>/dev/null | grep -v "^KNOWN" | grep -E "^\[|VIOLATION" | tail -3; echo "check=$c exit=$?" ) >> $OUT/checks.txt 2>&1
  rc=$(cd ${VERIF:-/verif} && VMC_REPO=$WT ./check $c --tier quick >/dev/null 2>&1; echo $?)
  echo "check=$c exit_code=$rc" >> $OUT/checks.txt
  f=$(ls /tmp/vmc_out/$(basename $WT)/replays/$c-0001.json 2>/dev/null) && python3 -c "
import json; r=json.load(open('$f')); print('first replay:', r['clause'], '|', r['detail'][:400])" >> $OUT/checks.txt
done
tail -1 $OUT/suite_with_change.txt; tail -2 $OUT/demo_with_change.txt | head -3; tail -1 $OUT/demo_without_change.txt; cat $OUT/checks.txt | cut -c1-400
