#!/usr/bin/env python3
"""tools/recheck_seeded.py [id-prefix ...]
Re-applies every kept seeded change (seeded/<id>/patch.diff) to a scratch worktree of /repo's HEAD, runs the checks named in its
meta.json ("checks", else the keys of "detected_by", else its property) through VMC_REPO at the quick tier, and records the verdicts in
seeded/<id>/recheck.json. Nothing is applied to /repo itself; the worktree is removed at the end."""
import json
import os
import re
import subprocess
import sys

ROOT = os.path.dirname(os.path.dirname(os.path.abspath(__file__)))
WT = "/tmp/mut/chk"


def sh(*a, **kw):
    return subprocess.run(a, capture_output=True, text=True, **kw)


def main():
    only = sys.argv[1:]
    sh("git", "-C", "/repo", "worktree", "remove", "--force", WT)
    r = sh("git", "-C", "/repo", "worktree", "add", "--detach", WT, "HEAD")
    if r.returncode:
        sys.exit(r.stderr)
    head = sh("git", "-C", "/repo", "rev-parse", "--short", "HEAD").stdout.strip()
    vhead = sh("git", "-C", ROOT, "rev-parse", "--short", "HEAD").stdout.strip()
    rows = []
    try:
        for sid in sorted(os.listdir(os.path.join(ROOT, "seeded"))):
            d = os.path.join(ROOT, "seeded", sid)
            if not os.path.isfile(os.path.join(d, "patch.diff")) or (only and not any(sid.startswith(o) for o in only)):
                continue
            meta = json.load(open(os.path.join(d, "meta.json")))
            checks = meta.get("checks") or list(meta.get("detected_by", {})) or [meta["property"]]
            sh("git", "-C", WT, "checkout", "--", ".")
            ap = sh("git", "-C", WT, "apply", os.path.join(d, "patch.diff"))
            out = dict(repo_head=head, verif_head=vhead, applies=ap.returncode == 0, checks={})
            if ap.returncode:
                out["apply_error"] = ap.stderr[:300]
            else:
                for c in checks:
                    env = dict(os.environ, VMC_REPO=WT)
                    p = sh(os.path.join(ROOT, "check"), c, "--tier", "quick", env=env, cwd=ROOT)
                    summ = [ln for ln in p.stdout.splitlines() if ln.startswith("[")][-1:] or [""]
                    m = re.search(r"violations=(\d+)", summ[0])
                    first = ""
                    fp = f"/tmp/vmc_out/chk/replays/{c}-0001.json"
                    if p.returncode == 1 and os.path.exists(fp):
                        rj = json.load(open(fp))
                        first = f"{rj['clause']} | {rj['detail'][:300]}"
                    out["checks"][c] = dict(exit=p.returncode, violations=int(m.group(1)) if m else None, first_replay=first,
                                            harness_errors=sum(ln.startswith("HARNESS-ERROR") for ln in p.stdout.splitlines()))
                    rows.append((sid, c, p.returncode, out["checks"][c]["violations"]))
                    print(sid, c, "exit", p.returncode, "violations", out["checks"][c]["violations"], flush=True)
            json.dump(out, open(os.path.join(d, "recheck.json"), "w"), indent=1)
    finally:
        sh("git", "-C", "/repo", "worktree", "remove", "--force", WT)
    missed = [r for r in rows if r[2] != 1]
    print(f"{len(rows)} (change, check) pairs; not detected: {missed}")


if __name__ == "__main__":
    main()
