SETUP = "sh /verif/setup.sh"
NOTES = ("Model checking by bounded exhaustive enumeration executed against the real library (DESIGN.md). "
         "No hooks in /repo; fix: commits are listed in known_findings.json. VERIF_SEED rotates work-unit order only.")
ENGINES = [
    dict(name="E1 schema-space", path="vmc/space.py vmc/ref.py vmc/e1.py",
         serves_properties=["C01", "C02", "C03", "C04", "C05", "C06", "C07", "C08", "C09", "C10", "C11", "C15", "C16", "C17", "C18", "C19", "C20"],
         kind_free_text="exhaustive enumeration of (schema, configuration, entry point, value/input) tuples up to a depth bound, each executed on the library and judged against a reference model or relational oracle"),
    dict(name="E2 histories", path="vmc/hist.py", serves_properties=["C12", "C13", "C14", "C15", "C20"],
         kind_free_text="explicit-state BFS over operation histories on fresh real class families with canonical-state deduplication and a differential (fresh eager twin) oracle"),
    dict(name="E3 schedules", path="vmc/sched.py", serves_properties=["C14"],
         kind_free_text="preemption-bounded exhaustive exploration of real thread interleavings under a sys.settrace baton scheduler (iterative context bounding)"),
]
NOT_APPLICABLE = {}
CHECKS = {
 "C01": dict(engine="E1 schema-space", design_ref="6/C01",
    technique="bounded exhaustive enumeration of schemas x configurations x entry points x values, executed on the library",
    text="Every schema of the bounded type grammar (all leaves at depth 1, representative alphabet to depth 3/4, plus the nullability cross: every "
         "structured constructor around an Optional leaf in every None-context, typing.Self / generic / inherited / forward-referencing classes), in every class "
         "configuration that keeps information, through codec, mixin and nested entry points and module/local class naming, with every "
         "value of the finite per-type domains: decode(encode(v)) is compared with v including concrete classes. Exhaustive within the "
         "stated bounds; nothing is sampled.",
    note="trusts vmc/space.py value domains and vmc/ref.py `same`; unions are in scope only where the reference reading maps the value's encoding back to it; CPython 3.12.1 only"),
 "C02": dict(engine="E1 schema-space", design_ref="6/C02",
    technique="bounded exhaustive enumeration of schemas x dialects x entry points x values against an independent reference interpreter",
    text="For every schema of the bounded grammar, every value of the per-type domains, the default dialect and the three format dialects "
         "(observed through the documented identity encoder on a holder, on the class itself built on the format mixin, and as default_dialect), through codec, mixin and nested entry points: the "
         "output is compared node by node (exact types, exact key/element/field order) with ref.encode, checked to contain only basic "
         "types plus the dialect's native types, and passed to json.dumps. Exhaustive within the stated bounds.",
    note="trusted base: vmc/ref.py (written from README.md, no library code), vmc/space.py value domains; one open finding (TOML null fields) is attributed by a narrow scope predicate"),
 "C03": dict(engine="E1 schema-space", design_ref="6/C03",
    technique="bounded exhaustive enumeration of schemas x foreign inputs (pool substitutions, structural mutations) against a three-valued reference decoder",
    text="For every schema of depth <= 2 (3 in thorough) every input of Enc(S) u Mut(S) (whole-document pool, every single-position substitution "
         "by each of 21 pool members, drop/add key, shorten/lengthen list) is decoded by the library and by ref.decode: defined result => equal and "
         "exact-class conforming; reference rejects => library raises; unspecified => only conformance. Exhaustive over the stated input sets.",
    note="trusted base: vmc/ref.py three-valued decode (Value/Reject/Unspecified) and vmc/foreign.py; two open findings (Union None fallback pinned by tests, NamedTuple default IndexError swallow)"),
 "C11": dict(engine="E1 schema-space", design_ref="6/C11, 4.1",
    technique="exhaustive enumeration of all ordered 2/3-member unions over a member alphabet x input pool against the reference union reading",
    text="Every ordered union of 2 and 3 members over 13 member kinds (23 in thorough), plus Optional-of-union, PEP 604, nested and "
         "constrained-TypeVar spellings and the Literal leaves, as codec shape and mixin field: every pool input, member encoding and "
         "single substitution is decoded and compared with the reference reading (declaration order, exact scalar match, coercion "
         "fallback, None only for None, raise otherwise); every member value must serialize to its own member's encoding.",
    note="trusted base: vmc/ref.py decode_union (reading fixed in DESIGN.md 4.1 from pinned tests); open findings: None fallback (pinned by tests), fixed-tuple member packing lists"),
 "C07": dict(engine="E1 schema-space", design_ref="6/C07",
    technique="exhaustive enumeration of dataclass field layouts x inheritance splits x presence vectors against a default/presence model",
    text="All field layouts up to length 4 (5 in thorough) over 13 field kinds that dataclasses accepts (required, default, factory, kw_only, "
         "KW_ONLY sentinel, init=False, InitVar, ClassVar, nullable, converted), every base/child split, two- and three-level hierarchies with "
         "default-changing and kind-changing overrides (required->defaulted, Optional=None -> non-None), all presence "
         "vectors (absent/present/null), through mixin and codec: field == converted input iff present else default; non-constructor "
         "members never read; factory objects never shared between results; first missing required field named.",
    note="trusted base: the presence/default model in vmc/checks/c07.py (30 lines); layouts rejected by dataclasses itself are counted, not judged"),
 "C08": dict(engine="E1 schema-space", design_ref="6/C08",
    technique="exhaustive enumeration of the serialization-option lattice x instances against the PROJECT model",
    text="Config {unset,F,T}^3 x Config.dialect vectors x call-dialect vectors x sort_keys x lazy x all 8 code-generation-flag subsets x all keyword "
         "combinations the flags allow x two nested-class kinds x a 72-instance value grid: to_dict must equal PROJECT(effective options, plain "
         "output) with exact key order, nested classes projected with their own effective options.",
    note="trusted base: PROJECT and the precedence resolution in vmc/checks/c08.py; one open finding (keyword default masks call dialect) attributed by an exact deviation model"),
 "C09": dict(engine="E1 schema-space", design_ref="6/C09",
    technique="exhaustive enumeration of alias assignments x flags x all subsets of candidate input keys against KEYMODEL",
    text="All 64 alias-source assignments for a required and a defaulted field x (allow_deserialization_not_by_alias, forbid_extra_keys) x "
         "class-level discriminator x converted (int) and passed-through (Any) field types x mixin/codec/via-base entry x all 2^11 subsets of the candidate keys (names, each source's alias, stranger, "
         "'None', discriminator key): result / MissingField / ExtraKeysError(extra_keys) must equal KEYMODEL exactly.",
    note="trusted base: KEYMODEL (15 lines) in vmc/checks/c09.py"),
 "C10": dict(engine="E1 schema-space", design_ref="6/C10",
    technique="exhaustive enumeration of customization-level subsets x type-key subsets x strategy forms with marker-carrying registrations",
    text="All subsets of the six levels x all non-empty key subsets (alias/exact/origin) per key-bearing level x dict / SerializationStrategy / "
         "pass_through forms x mixin (call dialect), Basic codec (default_dialect) and orjson mixin (format dialect as lowest level) x both "
         "directions: the observed marker must be the lexicographic minimum under (field options, key specificity, level); pass_through at the "
         "winner must return the very object.",
    note="trusted base: the precedence order as stated in the property; markers make the winner directly observable"),
 "C13": dict(engine="E2 histories", design_ref="6/C13, 5.2",
    technique="explicit-state BFS over dialect-call histories on real classes (differential twin oracle) + exhaustive format x dialect-option-subset enumeration",
    text="(a) BFS to depth 3 (4 in thorough) over {to_dict, from_dict} x {no dialect, D1, D2, D3} x {class, parent, subclass} on fresh nested and "
         "inheritance families in eager / lazy / postponed mode and on a family whose subclass is DEFINED by an operation of the history, canonical state = per-class method/stub/dialect-cache contents: every call equals a "
         "fresh twin whose Config.dialect is that dialect, so no call can depend on earlier dialects or alter the default behaviour. (b) every format "
         "codec x every subset (size <= 2, thorough <= 3) of the six Dialect options: the document parsed by the format's own library equals the basic "
         "codec's output under the same dialect, decoder dually.",
    note="trusted base: vmc/hist.py canonicalisation (argument in DESIGN.md 5.2), vmc/family.py families; the fix commits for Dialect.merge and lazy/postponed dialect compilation are what make it pass"),
 "C14": dict(engine="E2 histories + E3 schedules", design_ref="6/C14, 5.2, 5.3",
    technique="explicit-state BFS over call histories on real classes + preemption-bounded exhaustive thread-schedule exploration under a sys.settrace baton scheduler",
    text="(a) BFS to depth 3 (4) over {to_dict, from_dict, to_jsonb, from_json, to_msgpack, from_msgpack} x {no dialect, D1, D2} x classes of five "
         "families (nested, inherited, generic with two specialisations, mutually referencing, two formats on one class) x {eager, lazy, postponed} x "
         "dialect support on/off; oracle = same call on a fresh eager twin; RecursionError/AttributeError count as violations. (b) 13 thread harnesses "
         "(first calls racing on one fresh family): every interleaving with <= 1 preemption (<= 2 in thorough for two threads) is executed; every "
         "thread's outcome and a sequential call afterwards must equal the twin's.",
    note="atomic step = one line of generated code or the stretch between traced library calls; interleavings inside a step and other interpreters are not covered"),
 "C12": dict(engine="E2 histories", design_ref="6/C12, 5.2",
    technique="explicit-state BFS over define-subclass / decode histories on real class hierarchies with a history-computed oracle",
    text="For four wirings (Config.discriminator, Annotated field of a mixin holder, a holder with two discriminated fields using two tagger functions, BasicDecoder) x 14 discriminator settings (field or not, "
         "include_subtypes/supertypes, variant_tagger_fn none/single/list): BFS over all histories of {define Sub1/Sub2/Sub3 (grandchild), decode each "
         "tag (including the falsy tags 0 and ''), missing tag, unknown tag, decode via subclass, four field-less input shapes} until the canonical state space is exhausted (frontier empties "
         "below the depth bound 6/8): each decode must return the class carrying the tag among the classes defined so far, else the documented error.",
    note="oracle is computed from the history only (definition order, eligibility, tags); canonical state = defined classes + per-class methods + variant registries"),
 "C15": dict(engine="E1 schema-space + E2 histories", design_ref="6/C15",
    technique="exhaustive relational comparison of all entry points over the schema space + BFS over codec/subclass-creation histories",
    text="(a) every schema of depth <= 1 (2 in thorough) wrapped in a plain and a mixin dataclass x every value: mixin methods, BasicEncoder/Decoder, "
         "one-shot functions, the class inside List/Dict/Tuple/Optional, as a field of an outer class, and JSON/YAML/MessagePack/orjson codecs must give "
         "the same result; (b) BFS (depth 4/5) over {create codec for D / List[D] / Outer, define subclass, encode/decode through the oldest and a new "
         "codec, to_dict, from_dict}: every result equals the result on a fresh family.",
    note="hooks excluded (C19); format documents compared after parsing with the format's own library, inside the common representable subset"),
 "C19": dict(engine="E1 schema-space", design_ref="6/C19",
    technique="exhaustive enumeration of hooked dataclass trees x shapes x context opt-in masks x entry points with marking hooks",
    text="Every tree of depth 2 and 3 over nine child shapes (field, List, Dict, Optional, Tuple, Union in both member orders, list of unions, "
         "Union with a scalar first) x mixin / plain / orjson / msgpack class kinds x ADD_SERIALIZATION_CONTEXT masks x other keyword flags on some classes only x 6-8 entry points: serialize "
         "hook trace == pre/post-order traversal; each hook's return value used exactly once (marks in output/result); post-deserialize multiset == "
         "instances of the result; context reaches exactly the opted-in nodes below opted-in ancestors.",
    note="hooks mark tags so that 'return value is what is used' is observable; deserialize pre-hooks of speculative union attempts are allowed (only post counts are exact)"),
 "C16": dict(engine="E1 schema-space", design_ref="6/C16",
    technique="exhaustive enumeration of all strings up to a length bound over an adversarial alphabet x every splice position, with neighbour-rejection and a sentinel side effect",
    text="All strings of length 0..3 (0..4 in thorough) over 14 adversarial characters (quotes, backslash, newline, braces, %, #, NUL-like payloads, "
         "non-ASCII) plus 30 injection payloads x 16 positions (three alias sources with and without forbid_extra_keys / allow_deserialization_not_by_alias, and on "
         "the statement-per-field to_dict path: nullable converted field, omit_default, by_alias keyword flag; "
         "TypedDict required/NotRequired key, discriminator field, Literal str/bytes, enum value, namedtuple-as-dict key): build succeeds, the exact string "
         "is written and read, one-character and escape-lookalike neighbours are rejected, error objects carry the exact string, the sentinel never fires.",
    note="namedtuple field names and empty/dunder discriminator names are excluded by Python's or the documented API's own rules (counted as not applicable)"),
 "C18": dict(engine="E1 schema-space", design_ref="6/C18",
    technique="exhaustive enumeration of container schemas x all 32 no_copy_collections subsets x routes x values with an identity-sharing model",
    text="Container schemas up to depth 3 over {int, date, Any, an annotated SerializableType that returns its own list} x every subset of {list, dict, set, deque, OrderedDict} as no_copy_collections through codec "
         "default_dialect, Config.dialect and call dialect, plus the orjson/msgpack/TOML dialects x values: the set of mutable containers shared by identity "
         "between value and output equals the model's prediction exactly; serialization never mutates the value; decoding never shares a typed container "
         "with, nor mutates, its input.",
    note="trusted base: the sharing model in vmc/checks/c18.py (origin in N and conversion-free elements, Optional positions inside collections rebuilt, nested dataclasses reached only by a codec default_dialect)"),
 "C17": dict(engine="E1 schema-space", design_ref="6/C17",
    technique="exhaustive enumeration of schemas and class-definition-site scenarios with settrace capture of every generated compile unit and bytecode enumeration of all global loads",
    text="Every schema of depth <= 1 (2 in thorough) in module and <locals> class naming, plus 13 class kinds created by functional APIs x 12 shapes x "
         "{function-local, not bound to its module}, 5 twin-qualified-name kinds x 4 shapes and 9 annotations x 5 ways of overriding a field's conversion: (1) every compile unit the library execs is captured through "
         "sys.settrace and every LOAD_GLOBAL/LOAD_NAME (with module attribute chains) in every code object is resolved against the function's globals and "
         "builtins - this covers paths no input exercises; (2) success and error paths are provoked and no NameError/SyntaxError/library-made AttributeError "
         "may appear in any exception chain; decoded objects must be instances of the very annotated class; DefaultDict factories must be classes or None.",
    note="two open findings (classes bound by name instead of identity: not-a-module-attribute and twin qualified names) attributed by scenario site + clause; subclasses of builtins are accepted as their base class"),
 "C05": dict(engine="E1 schema-space", design_ref="6/C05",
    technique="exhaustive enumeration of dataclass layouts x configurations x whole-argument pool, single- and pair-field corruptions against a first-bad-field reference",
    text="Every layout of 1-3 fields over 20 field types (required/defaulted/nullable) x {default, forbid_extra_keys, allow_deserialization_not_by_alias, "
         "lazy, plain-dataclass codec, class-level discriminator} x inputs (21 pool members as the whole argument, every single-field corruption by removal "
         "or by every pool member the reference rejects, every pair of corrupted fields, unknown key): the outcome is an instance or exactly the documented "
         "exception naming the first bad field in declaration order, with the offending input value and holder class; nothing rejected is replaced by None "
         "or a default; the input is unchanged; no NameError/SyntaxError in the chain.",
    note="trusted base: vmc/ref.py decode per field; open findings attributed by deviation models (Union None fallback, NamedTuple IndexError swallow) or scenario facts (discriminator TypeError, empty dataclass)"),
 "C04": dict(engine="E1 schema-space", design_ref="6/C04",
    technique="exhaustive enumeration of formats x schemas x values inside each format's representable subset x entry points, with the format's own parser as second oracle",
    text="For json, orjson, yaml, msgpack and toml x every schema of depth <= 1 (2 in thorough, plus a depth-2 slice in quick) wrapped in a dataclass "
         "field x every value the format can represent x {mixin methods, Encoder/Decoder objects, one-shot functions}: decode(encode(v)) is `same` as v; "
         "the document parsed by json/orjson/PyYAML/msgpack/tomllib equals the reference basic form with the format's native types left native and TOML "
         "null fields absent; the three entry points produce the identical document.",
    note="the representable-subset predicate is part of the enumerator and printed in the evidence; values outside it are counted per format, not judged"),
 "C06": dict(engine="E1 schema-space", design_ref="6/C06",
    technique="exhaustive enumeration of schemas x targets x (dialect, all_refs) x values, each instance validated by jsonschema.Draft202012Validator",
    text="Every schema-supported schema of depth <= 1 (2 in thorough, plus a slice of depth 2 in quick), bare, as a dataclass field with an Optional twin "
         "and under four alias settings (metadata, Config.aliases, both, Annotated Alias), plus init=False fields and fixed unpacked tuples, x {DRAFT_2020_12, OPEN_API_3_1} x all_refs x every value: the JSON round trip of the documented serialization "
         "(by alias where aliases exist) must validate against build_json_schema's output under a standard Draft 2020-12 validator; required == fields "
         "without default; same-named classes and generic specialisations must not share a definition.",
    note="standard validator = jsonschema 4.26 from the offline wheelhouse (installed by setup.sh into /verif/.deps); five open findings (Flag enum, non-string propertyNames, init=False fields - all three pinned by tests -, self reference, definition-name collision) attributed per validation error"),
 "C20": dict(engine="E1 schema-space + E2 histories", design_ref="6/C20",
    technique="exhaustive enumeration of owner configurations x defaults x build parameters with metaschema / $ref-closure / model-round-trip oracles + BFS over JSONSchemaBuilder.build orders",
    text="(a) every schema-supported schema as a defaulted field of an owner dataclass x domain values as defaults x 12 owner configurations (key-dropping "
         "and renaming options directly and through Config.dialect, sort_keys, lazy, namedtuple_as_dict, serialization_strategy) x dialect x all_refs x "
         "ref_prefix x with_definitions: no exception, metaschema-valid, every $ref carries the prefix and names a collected definition, "
         "JSONSchema.from_dict(to_dict()).to_dict() is the identity; (b) BFS over every order of build calls for four types sharing nested classes on one "
         "builder (three builder variants): each result equals a fresh builder's and definitions accumulate to the order-independent union.",
    note="one open finding (self-referencing dataclass recursion); fixes for _default KeyError, LiteralString, Final, slots and mutable NamedTuple defaults are what make the rest pass"),
}


# dimensions added after the three waves of independent seeded changes (DESIGN.md 10.9, 10.10); appended to the texts above
ADDENDA = {
 "C01": " Also in the grammar: two parametrisations of one generic TypedDict / NamedTuple in one field, two plain dataclasses referring to each other, the builtins list / dict without parameters, rarer leaf values (CR LF text, scoped IPv6, 1e16, infinite Decimal). Eight patterns of inheritance from generic bases (same / swapped parameter order, partial specialisation, nested arguments), generic classes that refer to their own specialisation.",
 "C02": " Also: the plain to_dict() of a holder built on a format mixin must stay the default basic form.",
 "C03": " Also: from_dict of a holder built on the orjson / msgpack mixin (depth <= 1).",
 "C04": " Also: two ORJSON classes with different Config.orjson_options defined one after the other (5 options x 3 compile styles each, first call with or without an explicit orjson_options=; absolute oracle orjson.dumps(..., option=own); forked per unit), and a subclass instance in a base-typed field through every format mixin (4 shapes x 2 call orders). Strings that look like syntax of the format (12 strings x 5 positions x 5 formats); what TOML can represent is decided per value by a reference rule, not skipped wholesale.",
 "C05": " Also: a subclass of a forbid_extra_keys parent that has a field of its own. Failures nested below the reported field: a self-referential class corrupted one to three levels down, a bad element in a list of unions (mixin and codec).",
 "C06": " Also: 252 tuple types with an unpacked part (nested one level, variadic) generated from a grammar. Annotated constraints (17 targets x conforming / violating instances), a SerializationStrategy-typed field validated with the serializer's own output, forward references inside NamedTuple / TypedDict members.",
 "C07": " Also: inherited fields re-declared as a bare class-body default, an init=False member re-declared as a parameter, three-level hierarchies. Optional fields whose default is falsy but not None (0, empty list).",
 "C08": " Also: nested classes whose code-generation flags differ from the outer class (56 uneven pairs), tuple-defaulted fields (one item, enum member, nested).",
 "C09": " Also: fields split over a parent and a subclass, and a grandparent declaring the field under another alias that the parent re-declares. A parent whose allow_deserialization_not_by_alias differs from the subclass's.",
 "C10": " Also: one-direction dict registrations (per-direction winner over 7-8 slots), use_annotations strategies competing with plain ones, three registered / unregistered types inside one field with an engine name.",
 "C11": " Also: scalar members behind NewType / Annotated chains up to three deep. Recursive type aliases (declaration order x 9 values), NamedTuple members under namedtuple_as_dict.",
 "C12": " Also: the hierarchy built on the orjson mixin with from_dict / from_json interleaved, an abstract intermediate class, and the invariant that the user's Discriminator object stays as written. Two discriminated fields over one hierarchy in one codec, a tagger function returning None for one class.",
 "C13": " Also: the format-mixin family (dict / orjson / msgpack calls interleaved), a family with TypedDict / NamedTuple-with-default / Union fields, and dialect options written on a parent Dialect class. Generic classes and late-defined classes in the histories; codecs with direct / inherited / split dialects against an absolute anchor, including a bytes field under msgpack.",
 "C14": " Also: a class-level discriminator family (histories and three thread harnesses on its tag registry), helper-method kinds, an explicit encoder argument on a first call. A family whose last class is defined by an operation of the history (forward reference resolved late); thorough tier: one depth-4 search per first operation, 32 shards per bound-2 schedule harness.",
 "C15": " Also: one-shot functions called in sequence with equal-but-different shapes (order-permuted unions, 21 member pairs x 4 spellings). Tuple types with a first / last union member and sibling fields; format codecs built with an empty default_dialect against the same codecs built without.",
 "C16": " Also: Literal strings as arguments of twin specialisations of a generic dataclass, and long strings.",
 "C17": " Also: distinct classes with the same __qualname__ in two modules or non-ASCII names of equal length (fields, tuple, union, list, generic arguments), a generic base specialised with a local class, every depth-2 schema with a user class under a wrapper. Twins behind forward references.",
 "C18": " Also: two sources of no_copy_collections at once (10 listing pairs), the builtins list / dict without parameters, and a decode-side check that excludes only the Any zones. mappingproxy-typed fields (seen through gc referents), call-level vs Config vs orjson-dialect routes in pairs.",
 "C19": " Also: lazily compiled and postponed class trees, and variants of a Config-discriminator hierarchy that inherit the hooks. A hook-less intermediate class between two hooked ones.",
 "C20": " Also: BFS over build_json_schema(T, context=shared, **override) sequences on one user Context (differential against a fresh equal Context + the Context stays as written).",
}
for _k, _v in ADDENDA.items():
    CHECKS[_k]["text"] += _v

# dimensions added after the eighth wave (DESIGN.md 10.17)
ADDENDA8 = {
 "C06": " Literal types mixing values that are equal in Python but distinct on the wire (True / 1 / IntEnum 1 / Enum with value 1, False / 0, '1'): every ordered pair and triple over 12 values, bare, as a field and as a list element.",
 "C07": " Aliased fields: 10 default kinds (converting, pass-through and Any types) x 2 fields x alias written in metadata / Annotated / Config.aliases x allow_deserialization_not_by_alias x presence under the alias, the field's own name, both, or null.",
 "C08": " A class nested in itself (typing.Self, its own name, its own name under postponed annotations; Optional / List / Dict positions): every Config vector x Config.dialect x flag subset x keyword combination on seven trees - the options must reach every level.",
 "C13": " A class-form SerializationStrategy object for a type the orjson dialect has its own entry for (UUID); one Dialect class handed to the codecs of two formats (every ordered pair): the second format's documents and decoded values must equal those of a fresh dialect.",
 "C14": " Finer scheduling points (every library source line that calls setattr / getattr / hasattr / exec, touches __dict__, a *_cache or __mashumaro* attribute, or names a module-level mutable object - found by an AST scan of the current tree) for five harnesses at preemption bound 1 (quick) and every two-thread harness (thorough).",
 "C11": " Nullable ordered collections (list / variadic tuple / deque / Sequence, mappings) with Optional elements, as an Optional field, a list of Optionals and a three-member union.",
 "C16": " 15 encoding-sensitive strings (outside the BMP, combining marks, U+2028 / U+2029 / NEL, BOM, directional mark, case-folding traps) in every position.",
 "C18": " ChainMap / defaultdict / MutableMapping positions; a ChainMap's list of maps and each map count as the instance's containers.",
 "C19": " Classes without fields (hooks log into a trace): own or inherited hooks x five class kinds x five positions x every entry point, two rounds.",
 "C20": " Builder histories over two different dataclasses that share a __name__ (three builder settings, depth 5): the document of the latest build and every definition it reaches equal a fresh builder's.",
 "C17": " Decoding a VALID document of a class that is not a module attribute is judged separately from the error paths (for dataclass kinds it must work).",
}
for _k, _v in ADDENDA8.items():
    CHECKS[_k]["text"] += _v
