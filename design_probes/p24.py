# C03 probe: three-valued REF_DECODE on foreign inputs (pool as whole input and as single element substitution)
import os, collections, re as _re
exec(open(os.path.join(os.path.dirname(os.path.abspath(__file__)), 'p13.py')).read().split("n=bad=0; shown=0; kinds")[0])
from base64 import decodebytes
class Rej(Exception): pass
class Unspec(Exception): pass
def tzparse(s):
    m = _re.match(r"^UTC(([+-])([0-2][0-9]):([0-5][0-9]))?$", s)
    if not m: raise ValueError(s)
    if not m.group(1): return dt.timezone.utc
    sign = -1 if m.group(2)=='-' else 1
    return dt.timezone(sign*dt.timedelta(hours=int(m.group(3)), minutes=int(m.group(4))))
CT = {'int': int, 'float': float, 'bool': bool, 'str': str,
      'bytes': lambda x: decodebytes(x.encode()), 'bytearray': lambda x: bytearray(decodebytes(x.encode())),
      'datetime': dt.datetime.fromisoformat, 'date': dt.date.fromisoformat, 'time': dt.time.fromisoformat,
      'timedelta': lambda x: dt.timedelta(seconds=x), 'timezone': tzparse, 'uuid': uuid.UUID,
      'decimal': decimal.Decimal, 'fraction': fractions.Fraction, 'ipv4': ipaddress.IPv4Address, 'ipv6net': ipaddress.IPv6Network,
      'path': pathlib.Path, 'purepath': pathlib.PurePath, 'pattern': re.compile, 'enum': ES, 'flag': FL,
      'none': lambda x: None, 'any': lambda x: x}
def rd(s, x, top=False):
    t = s[0]
    if t=='leaf':
        try: return CT[s[1]](x)
        except Exception: raise Rej()
    if t=='opt':
        return None if x is None else rd(s[1], x)
    if t in ('list','sequence','tuplevar','deque','set','frozenset'):
        if not isinstance(x, (list, tuple, str, dict)): 
            raise Rej()   # non-iterable scalars (None, bool, int, float)
        items = [rd(s[1], e) for e in x]
        try:
            return {'list': list, 'sequence': list, 'tuplevar': tuple, 'deque': collections.deque, 'set': set, 'frozenset': frozenset}[t](items)
        except TypeError: raise Rej()
    if t=='tuple2':
        if isinstance(x, dict): raise Unspec()
        if not isinstance(x, (list, tuple, str)): raise Rej()
        if len(x) < 2: raise Rej()
        return (rd(s[1], x[0]), rd(s[2], x[1]))
    if t in ('dict','mapping','ordered','chain'):
        if t=='chain':
            if not isinstance(x, (list, tuple)): 
                if isinstance(x,(str,dict)): 
                    if len(x)==0: return collections.ChainMap()
                    raise Rej()
                raise Rej()
            maps=[]
            for m in x:
                if not isinstance(m, dict): raise Rej()
                try: maps.append({rd(s[1],k): rd(s[2],v) for k,v in m.items()})
                except TypeError: raise Rej()
            return collections.ChainMap(*maps)
        if not isinstance(x, dict): raise Rej()
        try: d = {rd(s[1],k): rd(s[2],v) for k,v in x.items()}
        except TypeError: raise Rej()
        return collections.OrderedDict(d) if t=='ordered' else d
POOL = [None, True, False, 0, 1, -1, 1.5, "", "1", "1.5", "abc", "2020-01-01", "2020-01-01T00:00:00+00:00", "UTC+03:00", [], [1], ["a","b"], [1,2,3], [None], {}, {"a":1}, {"1":1}, [[1]], [{}]]
def conforms(s, r):
    t=s[0]
    if t=='leaf':
        if s[1]=='any': return True
        T = LEAVES[s[1]][0]
        if s[1]=='pattern': return isinstance(r, re.Pattern)
        if s[1] in ('path','purepath'): return isinstance(r, T)
        return type(r) is T
    if t=='opt': return r is None or conforms(s[1], r)
    C = {'list': list, 'sequence': list, 'tuplevar': tuple, 'deque': collections.deque, 'set': set, 'frozenset': frozenset, 'tuple2': tuple,'dict': dict,'mapping': dict,'ordered': collections.OrderedDict,'chain': collections.ChainMap}[t]
    if type(r) is not C: return False
    if t in ('list','sequence','tuplevar','deque','set','frozenset'): return all(conforms(s[1], e) for e in r)
    if t=='tuple2': return len(r)==2 and conforms(s[1], r[0]) and conforms(s[2], r[1])
    if t=='chain': return all(conforms(s[1],k) and conforms(s[2],v) for m in r.maps for k,v in m.items())
    return all(conforms(s[1],k) and conforms(s[2],v) for k,v in r.items())
n=bad=unspec=0; kinds=collections.Counter(); ex={}
for s in schemas():
    T = mat(s); D = BasicDecoder(T)
    inputs = list(POOL)
    # single-element substitution into a valid encoding
    for v in values(s)[-1:]:
        try: e = ref_enc(s, v)
        except Exception: continue
        if isinstance(e, list) and e:
            inputs += [[p] + e[1:] for p in POOL]
        if isinstance(e, dict) and e:
            k0 = next(iter(e))
            inputs += [{**e, k0: p} for p in POOL]
    for x in inputs:
        n+=1
        try: exp = ('val', rd(s, x))
        except Rej: exp = ('rej',)
        except Unspec: exp = ('unspec',); unspec+=1
        try: got = ('val', D.decode(x))
        except Exception as e: got = ('rej', type(e).__name__)
        key = (s[0], s[-1][1] if s[-1][0]=='leaf' else '')
        if exp[0]=='unspec':
            if got[0]=='val' and not conforms(s, got[1]):
                bad+=1; k=key+('UNSPEC-NONCONF',); kinds[k]+=1; ex.setdefault(k,(repr(x)[:40], repr(got)[:60]))
            continue
        if exp[0]!=got[0]:
            bad+=1; k=key+(f'ref={exp[0]} impl={got[0]}',); kinds[k]+=1; ex.setdefault(k,(repr(x)[:40], repr(exp)[:50], repr(got)[:60])); continue
        if exp[0]=='val':
            if not same(exp[1], got[1]):
                bad+=1; k=key+('VALUE',); kinds[k]+=1; ex.setdefault(k,(repr(x)[:40], repr(exp[1])[:50], repr(got[1])[:50]))
            elif not conforms(s, got[1]):
                bad+=1; k=key+('NONCONF',); kinds[k]+=1; ex.setdefault(k,(repr(x)[:40], repr(got[1])[:60]))
print("cases", n, "bad", bad, "unspecified", unspec)
agg = collections.Counter()
for k,v in kinds.items(): agg[k[-1] if k[0]!='leaf' else ('leaf',)+k[1:]] += v
for k,v in sorted(kinds.items(), key=str)[:60]: print(k, v, ex.get(k,''))
