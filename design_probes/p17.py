import sys, dis, builtins, types, collections
exec(open(__import__('os').path.join(__import__('os').path.dirname(__import__('os').path.abspath(__file__)), 'p13.py')).read().split("n=bad=0; shown=0; kinds")[0])
from dataclasses import make_dataclass, field
from mashumaro import DataClassDictMixin
from mashumaro.codecs.basic import BasicEncoder, BasicDecoder

captured = []   # (code, globals, locals_or_None)
seen_codes = set()
def tracer(frame, event, arg):
    co = frame.f_code
    if co.co_filename == '<string>' and event == 'call':
        if id(co) not in seen_codes:
            seen_codes.add(id(co)); captured.append((co, frame.f_globals, frame.f_locals if co.co_name == '<module>' else None, frame))
        if co.co_name == '<module>':
            return ret_tracer
    return None
def ret_tracer(frame, event, arg):
    if event == 'return':
        for v in list(frame.f_locals.values()):
            f = getattr(v, '__func__', v)
            if isinstance(f, types.FunctionType) and f.__code__.co_filename == '<string>' and id(f.__code__) not in seen_codes:
                seen_codes.add(id(f.__code__)); captured.append((f.__code__, f.__globals__, None, None))
    return ret_tracer
def global_loads(co):
    for ins in dis.get_instructions(co):
        if ins.opname in ('LOAD_GLOBAL', 'LOAD_NAME'):
            yield ins.opname, ins.argval
    for c in co.co_consts:
        if isinstance(c, types.CodeType):
            yield from global_loads(c)
def check():
    bad = []
    for co, g, loc, fr in captured:
        for op, name in global_loads(co):
            if name in g or hasattr(builtins, name): continue
            if loc is not None and name in loc: continue
            if op == 'LOAD_NAME' and loc is None: continue  # nested class body etc.
            bad.append((co.co_name, op, name))
    return bad
total=0; allbad=collections.Counter()
for s in schemas():
    T = mat(s)
    captured.clear(); seen_codes.clear()
    sys.settrace(tracer)
    try:
        M = make_dataclass('M', [('x', T), ('y', Optional[T], field(default=None))], bases=(DataClassDictMixin,))
        E = BasicEncoder(T); D = BasicDecoder(T)
        for v in values(s)[:2]:
            M.from_dict(M(v).to_dict()); D.decode(E.encode(v))
    finally:
        sys.settrace(None)
    total += len(captured)
    for b in check():
        allbad[b[1:]] += 1
print("code objects checked", total, "unresolved", sum(allbad.values()))
for k,v in allbad.most_common(20): print(k, v)
