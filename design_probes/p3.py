import datetime, traceback, sys, enum, collections, types
from dataclasses import dataclass, field
from typing import *
from mashumaro import DataClassDictMixin, field_options, pass_through
from mashumaro.config import BaseConfig, ADD_DIALECT_SUPPORT
from mashumaro.dialect import Dialect
from mashumaro.types import Discriminator, Alias
from mashumaro.codecs.basic import BasicDecoder, BasicEncoder

def t(name, f):
    try:
        print(name, '->', repr(f()))
    except RecursionError as e:
        print(name, 'RAISED RecursionError')
    except BaseException as e:
        print(name, 'RAISED', type(e).__name__, str(e)[:300])

# history: define after call — Config
@dataclass
class B(DataClassDictMixin):
    class Config(BaseConfig):
        discriminator = Discriminator(field='t', include_subtypes=True)
@dataclass
class S1(B):
    t: ClassVar[str] = 'a'
t("cfg a", lambda: B.from_dict({'t':'a'}))
t("cfg b before", lambda: B.from_dict({'t':'b'}))
@dataclass
class S2(B):
    t: ClassVar[str] = 'b'
t("cfg b after", lambda: B.from_dict({'t':'b'}))
# redefine tag 'a' by a sub-subclass (S3 subclass of S1 with same tag 'a')? tags unique assumption; but subclass w/o own tag inherits? uses variant.__dict__ so no.
@dataclass
class S3(S1):
    x: int = 0
t("cfg a after S3 (no own tag)", lambda: B.from_dict({'t':'a'}))
t("S1.from_dict a", lambda: S1.from_dict({'t':'a'}))
t("S1.from_dict b", lambda: S1.from_dict({'t':'b'}))
t("S2.from_dict a", lambda: S2.from_dict({'t':'a'}))

# Annotated field in plain dataclasses
@dataclass
class PB:
    pass
@dataclass
class P1(PB):
    t: Literal['a'] = 'a'
@dataclass
class H(DataClassDictMixin):
    v: Annotated[PB, Discriminator(field='t', include_subtypes=True)]
t("ann a", lambda: H.from_dict({'v': {'t':'a'}}))
t("ann b before", lambda: H.from_dict({'v': {'t':'b'}}))
@dataclass
class P2(PB):
    t: Literal['b'] = 'b'
t("ann b after", lambda: H.from_dict({'v': {'t':'b'}}))
dec = BasicDecoder(Annotated[PB, Discriminator(field='t', include_subtypes=True)])
t("codec a", lambda: dec.decode({'t':'a'}))
t("codec c before", lambda: dec.decode({'t':'c'}))
@dataclass
class P3(PB):
    t: Literal['c'] = 'c'
t("codec c after", lambda: dec.decode({'t':'c'}))

# no-field mode: subtypes before supertypes, first that accepts
@dataclass
class NB:
    x: int
@dataclass
class N1(NB):
    y: int = 0
decn = BasicDecoder(Annotated[NB, Discriminator(include_subtypes=True, include_supertypes=True)])
t("nofield 1", lambda: decn.decode({'x':1,'y':2}))
@dataclass
class N2(NB):
    z: int
t("nofield z", lambda: decn.decode({'x':1,'z':2}))
t("nofield x only", lambda: decn.decode({'x':1}))

# Dialect with discriminators + ADD_DIALECT_SUPPORT
class DD(Dialect):
    serialization_strategy = {int: {'deserialize': lambda v: int(v)+100, 'serialize': lambda v: v-100}}
@dataclass
class DB(DataClassDictMixin):
    class Config(BaseConfig):
        discriminator = Discriminator(field='t', include_subtypes=True)
        code_generation_options=[ADD_DIALECT_SUPPORT]
@dataclass
class DS1(DB):
    t: ClassVar[str] = 'a'
    x: int = 0
t("dial none", lambda: DB.from_dict({'t':'a','x':1}))
t("dial DD", lambda: DB.from_dict({'t':'a','x':1}, dialect=DD))
t("dial none again", lambda: DB.from_dict({'t':'a','x':1}))
@dataclass
class DS2(DB):
    t: ClassVar[str] = 'b'
    x: int = 0
t("dial DD new sub", lambda: DB.from_dict({'t':'b','x':1}, dialect=DD))
t("dial none new sub", lambda: DB.from_dict({'t':'b','x':1}))
