import datetime
from typing import *
from mashumaro.codecs.basic import BasicDecoder, BasicEncoder
from dataclasses import dataclass
from mashumaro import DataClassDictMixin
from mashumaro.config import BaseConfig
def t(name, f):
    try:
        print(name, '->', repr(f()))
    except BaseException as e:
        print(name, 'RAISED', type(e).__name__, str(e)[:300])
t("date|str", lambda: BasicDecoder(Union[datetime.date, str]).decode('2020-01-01'))
t("str|date", lambda: BasicDecoder(Union[str, datetime.date]).decode('2020-01-01'))
t("int|float 1.5", lambda: BasicDecoder(Union[int, float]).decode(1.5))
t("float|int 1", lambda: BasicDecoder(Union[float, int]).decode(1))
t("int|str True", lambda: BasicDecoder(Union[int, str]).decode(True))
t("int|str 1.5", lambda: BasicDecoder(Union[int, str]).decode(1.5))
t("int|List[int] '12'", lambda: BasicDecoder(Union[int, List[int]]).decode('12'))
t("List[int]|int '12'", lambda: BasicDecoder(Union[List[int], int]).decode('12'))
t("int|None 'x'", lambda: BasicDecoder(Optional[int]).decode('x'))
t("bool|int 1", lambda: BasicDecoder(Union[bool, int]).decode(1))
t("enc int|str 1.5", lambda: BasicEncoder(Union[int, str]).encode(1.5))
t("enc date|str", lambda: BasicEncoder(Union[datetime.date, str]).encode('x'))
t("enc List[int]|List[str]", lambda: BasicEncoder(Union[List[datetime.date], List[str]]).encode(['x']))
t("Literal", lambda: [BasicDecoder(Literal[1,'a',None,True]).decode(v) for v in (1,'a',None,True,1.0)])
t("Literal False/0", lambda: BasicDecoder(Literal[0, 'x']).decode(False))
t("Literal True->1", lambda: BasicDecoder(Literal[1]).decode(True))
t("Literal b", lambda: BasicDecoder(Literal[b'ab']).decode('YWI=\n'))
t("enc Literal True", lambda: BasicEncoder(Literal[1]).encode(True))
