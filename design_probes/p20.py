import sys, collections, enum
from dataclasses import dataclass, field, make_dataclass
from typing import *
from typing_extensions import TypedDict as TD
from mashumaro import DataClassDictMixin
from mashumaro.config import BaseConfig
from mashumaro.types import Alias, Discriminator
from mashumaro.codecs.basic import BasicEncoder, BasicDecoder
STRS = ["a", "it's", 'say "hi"', "back\\slash", "trail\\", "new\nline", "{x}", "%s", "é", "a'] = __import__('os').getpid(); d['b", "", " "]
res = collections.defaultdict(dict)
def t(pos, s, f):
    try:
        r = f(); res[pos][s] = 'ok' if r is True else f'WRONG {r!r}'[:60]
    except BaseException as e:
        res[pos][s] = f'{type(e).__name__}'
for s in STRS:
    def meta():
        M = make_dataclass('M', [('x', int, field(metadata={'alias': s}))], bases=(DataClassDictMixin,), namespace={'Config': type('Config',(BaseConfig,),{'serialize_by_alias': True})})
        return M(1).to_dict() == {s: 1} and M.from_dict({s: 2}).x == 2
    t('meta_alias', s, meta)
    def ann():
        M = make_dataclass('M', [('x', Annotated[int, Alias(s)])], bases=(DataClassDictMixin,), namespace={'Config': type('Config',(BaseConfig,),{'serialize_by_alias': True})})
        return M(1).to_dict() == {s: 1} and M.from_dict({s: 2}).x == 2
    t('annotated_alias', s, ann)
    def cfg():
        M = make_dataclass('M', [('x', int)], bases=(DataClassDictMixin,), namespace={'Config': type('Config',(BaseConfig,),{'serialize_by_alias': True, 'aliases': {'x': s}, 'forbid_extra_keys': True})})
        return M(1).to_dict() == {s: 1} and M.from_dict({s: 2}).x == 2
    t('config_alias+forbid', s, cfg)
    def td():
        T = TD('T', {s: int})
        return BasicEncoder(T).encode({s: 1}) == {s: 1} and BasicDecoder(T).decode({s: 1}) == {s: 1}
    t('typeddict_key', s, td)
    def disc():
        B = make_dataclass('B', [], bases=(DataClassDictMixin,), namespace={'Config': type('Config',(BaseConfig,),{'discriminator': Discriminator(field=s, include_subtypes=True)})})
        S = make_dataclass('S', [], bases=(B,), namespace={s: 'tag'})
        return type(B.from_dict({s: 'tag'})) is S
    t('discriminator_field', s, disc)
    def lit():
        L = Literal[s]  # type: ignore
        return BasicEncoder(L).encode(s) == s and BasicDecoder(L).decode(s) == s
    t('literal_str', s, lit)
    def litb():
        L = Literal[s.encode()]  # type: ignore
        from base64 import encodebytes
        return BasicDecoder(L).decode(encodebytes(s.encode()).decode()) == s.encode()
    t('literal_bytes', s, litb)
    def en():
        E = enum.Enum('E', {'A': s})
        return BasicEncoder(E).encode(E.A) == s and BasicDecoder(E).decode(s) is E.A
    t('enum_value', s, en)
for pos, d in res.items():
    print(pos)
    for s, r in d.items(): print("    %-45r %s" % (s, r))
