import datetime, sys
from dataclasses import dataclass, field
from typing import *
from mashumaro import DataClassDictMixin
from mashumaro.config import BaseConfig, ADD_DIALECT_SUPPORT
from mashumaro.dialect import Dialect
def t(name, f):
    try:
        print(name, '->', repr(f()))
    except RecursionError as e:
        print(name, 'RAISED RecursionError')
    except BaseException as e:
        print(name, 'RAISED', type(e).__name__, str(e)[:300])
class D(Dialect):
    serialization_strategy = {datetime.date: {'serialize': lambda v: v.strftime('%Y/%m/%d'), 'deserialize': lambda s: datetime.datetime.strptime(s, '%Y/%m/%d').date()}}

def fam(order):
    globals().pop('Inner', None)
    @dataclass
    class Outer(DataClassDictMixin):
        i: "Inner"
        d: datetime.date
        class Config(BaseConfig):
            code_generation_options=[ADD_DIALECT_SUPPORT]
    @dataclass
    class Inner:
        a: datetime.date
    globals()['Inner'] = Inner
    o = Outer(Inner(datetime.date(2020,1,2)), datetime.date(2020,1,2))
    res = []
    for op in order.split():
        try:
            if op == 'n': res.append(o.to_dict())
            elif op == 'D': res.append(o.to_dict(dialect=D))
            elif op == 'fn': res.append(Outer.from_dict({'i': {'a': '2020-01-02'}, 'd': '2020-01-02'}))
            elif op == 'fD': res.append(Outer.from_dict({'i': {'a': '2020/01/02'}, 'd': '2020/01/02'}, dialect=D))
        except RecursionError:
            res.append('RecursionError')
        except BaseException as e:
            res.append((type(e).__name__, str(e)[:100]))
    return res
sys.setrecursionlimit(300)
for order in ['n D', 'D n', 'D n D', 'fn fD', 'fD fn', 'fD fn fD', 'n fD', 'fD D']:
    print(order, fam(order))
