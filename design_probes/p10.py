import itertools, sys, dataclasses
from dataclasses import dataclass, field, MISSING, make_dataclass
from typing import *
from mashumaro import DataClassDictMixin
from mashumaro.config import BaseConfig
from mashumaro.types import Alias
from mashumaro.exceptions import *

n=bad=0; shown=0; kinds={}
# one field 'x' (required) + one field 'y' default 9; alias sources for x: meta (M), annotated (A), config (C): subset
for srcs in itertools.product((0,1),(0,1),(0,1)):
  for ysrc in (0,1):
    for allow, forbid in itertools.product((False,True),(False,True)):
        m,a,c = srcs
        xt = Annotated[int, Alias('xA')] if a else int
        xf = field(metadata={'alias':'xM'}) if m else field()
        aliases = {}
        if c: aliases['x']='xC'
        if ysrc: aliases['y']='yC'
        Cfg = type('Config',(BaseConfig,),dict(aliases=aliases, allow_deserialization_not_by_alias=allow, forbid_extra_keys=forbid))
        cls = make_dataclass('K', [('x', xt, xf), ('y', int, field(default=9))], bases=(DataClassDictMixin,), namespace={'Config':Cfg})
        x_alias = 'xM' if m else ('xA' if a else ('xC' if c else None))
        y_alias = 'yC' if ysrc else None
        cand = ['x','xM','xA','xC','y','yC','zz','None']
        for mask in range(1<<len(cand)):
            d = {k: 10+i for i,k in enumerate(cand) if mask>>i&1}
            # model
            accepted = set()
            def look(name, alias):
                keys = [alias or name]
                if allow and alias: keys.append(name)
                accepted.update(keys)
                for k in keys:
                    if k in d: return d[k]
                return MISSING
            vx = look('x', x_alias); vy = look('y', y_alias)
            if forbid and set(d)-accepted:
                want = ('ExtraKeysError', frozenset(set(d)-accepted))
            elif vx is MISSING:
                want = ('MissingField','x')
            else:
                want = {'x': vx, 'y': 9 if vy is MISSING else vy}
            try:
                got = dataclasses.asdict(cls.from_dict(dict(d)))
            except ExtraKeysError as e:
                got = ('ExtraKeysError', frozenset(e.extra_keys))
            except MissingField as e:
                got = ('MissingField', e.field_name)
            except Exception as e:
                got = ('EXC', type(e).__name__)
            n+=1
            if got!=want:
                bad+=1
                key=(srcs,ysrc,allow,forbid)
                kinds.setdefault(key,0); kinds[key]+=1
                if shown<6:
                    shown+=1; print("DIFF", key, d, "\n  want", want, "\n  got", got)
print("cases",n,"bad",bad)
for k,v in sorted(kinds.items()): print(k,v)
