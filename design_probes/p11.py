import datetime, sys
from dataclasses import dataclass, field
from typing import *
from mashumaro import DataClassDictMixin, pass_through
from mashumaro.config import BaseConfig, ADD_DIALECT_SUPPORT
from mashumaro.dialect import Dialect
from mashumaro.codecs.basic import BasicDecoder, BasicEncoder, encode, decode
from mashumaro.codecs.json import JSONEncoder
from mashumaro.codecs.orjson import ORJSONEncoder
from mashumaro.codecs.msgpack import MessagePackEncoder, MessagePackDecoder
from mashumaro.codecs.toml import TOMLEncoder
from mashumaro.codecs.yaml import YAMLEncoder
from mashumaro.mixins.orjson import DataClassORJSONMixin
from mashumaro.mixins.msgpack import DataClassMessagePackMixin
def t(name, f):
    try:
        print(name, '->', repr(f()))
    except RecursionError as e:
        print(name, 'RAISED RecursionError')
    except BaseException as e:
        print(name, 'RAISED', type(e).__name__, str(e)[:300])
# C18 sharing
@dataclass
class S(DataClassDictMixin):
    a: List[int]
    b: Dict[str, List[int]]
    c: Optional[List[int]]
    d: Tuple[List[int], ...]
    e: Any
    f: Sequence[int]
    g: Set[int]
s = S([1], {'k':[2]}, [3], ([4],), [5], [6], {7})
d = s.to_dict()
print("share default:", d['a'] is s.a, d['b'] is s.b, d['b']['k'] is s.b['k'], d['c'] is s.c, d['d'][0] is s.d[0], d['e'] is s.e, d['f'] is s.f)
class NC(Dialect):
    no_copy_collections = (list, dict)
@dataclass
class S2(DataClassDictMixin):
    a: List[int]
    b: Dict[str, List[int]]
    c: Optional[List[int]]
    d: Tuple[List[int], ...]
    f: Sequence[int]
    h: List[datetime.date]
    class Config(BaseConfig):
        dialect = NC
s2 = S2([1], {'k':[2]}, [3], ([4],), [6], [datetime.date(2020,1,1)])
d = s2.to_dict()
print("share nocopy:", d['a'] is s2.a, d['b'] is s2.b, d['b']['k'] is s2.b['k'], d['c'] is s2.c, d['d'][0] is s2.d[0], d['f'] is s2.f, d['h'] is s2.h)
inp = {'a':[1], 'b':{'k':[2]}, 'c':[3], 'd':[[4]], 'e':[5], 'f':[6], 'g':[7]}
r = S.from_dict(inp)
print("decode share:", r.a is inp['a'], r.b is inp['b'], r.b['k'] is inp['b']['k'], r.c is inp['c'], r.e is inp['e'])
# codec orjson msgpack nested no-copy
@dataclass
class M(DataClassMessagePackMixin):
    a: List[int]
    b: Dict[str, List[int]]
m = M([1], {'k':[2]})
dd = m.to_msgpack(encoder=lambda x: x)
print("msgpack share:", dd['a'] is m.a, dd['b'] is m.b)
# entry points agreement
@dataclass
class P:
    x: datetime.date
    y: Optional[int] = None
@dataclass
class PM(DataClassDictMixin):
    x: datetime.date
    y: Optional[int] = None
@dataclass
class Outer(DataClassDictMixin):
    f: P
p = P(datetime.date(2020,1,1))
print(BasicEncoder(P).encode(p), encode(p, P), BasicEncoder(List[P]).encode([p])[0], Outer(p).to_dict()['f'])
t("msgpack codec none post", lambda: MessagePackEncoder(P, post_encoder_func=None).encode(p))
t("toml codec", lambda: TOMLEncoder(P).encode(p))
t("orjson codec", lambda: ORJSONEncoder(P).encode(p))
t("yaml codec", lambda: YAMLEncoder(P).encode(p))
