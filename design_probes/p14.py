import itertools, sys
from dataclasses import dataclass, field, make_dataclass
from typing import *
from mashumaro import DataClassDictMixin
from mashumaro.config import BaseConfig, ADD_SERIALIZATION_CONTEXT
from mashumaro.codecs.basic import BasicEncoder, BasicDecoder
from mashumaro.codecs.json import JSONEncoder, JSONDecoder
from mashumaro.mixins.orjson import DataClassORJSONMixin
from mashumaro.mixins.msgpack import DataClassMessagePackMixin
log = []
def mk(name, fields, base=None, ctx=False):
    ns = {}
    def pre_s(self, **kw): log.append(('pre_s', name, id(self), kw.get('context'))); return self
    def post_s(self, d, **kw): log.append(('post_s', name, id(self), kw.get('context'))); return d
    @classmethod
    def pre_d(cls, d): log.append(('pre_d', name)); return d
    @classmethod
    def post_d(cls, o): log.append(('post_d', name, id(o))); return o
    ns.update(__pre_serialize__=pre_s, __post_serialize__=post_s, __pre_deserialize__=pre_d, __post_deserialize__=post_d)
    if ctx:
        ns['Config'] = type('Config',(BaseConfig,),{'code_generation_options':[ADD_SERIALIZATION_CONTEXT]})
    return make_dataclass(name, fields, bases=(base,) if base else (), namespace=ns)

def run(mixin_base, label):
    A = mk('A', [('a', int)], mixin_base)
    B = mk('B', [('b', str)], mixin_base)
    shapes = {
      'field': (lambda T: T, lambda v: v),
      'list': (lambda T: List[T], lambda v: [v, v.__class__(**v.__dict__)]),
      'dict': (lambda T: Dict[str,T], lambda v: {'k': v}),
      'opt': (lambda T: Optional[T], lambda v: v),
      'tuple': (lambda T: Tuple[T,int], lambda v: (v,1)),
      'unionAB': (lambda T: Union[A,B], lambda v: v),
      'unionBA': (lambda T: Union[B,A], lambda v: v),
      'listunion': (lambda T: List[Union[A,B]], lambda v: [v]),
      'union_int': (lambda T: Union[int, A, B], lambda v: v),
    }
    for sname,(mkT, mkV) in shapes.items():
        for T, v in ((A, A(1)), (B, B('x'))):
            ft = mkT(T); val = mkV(v)
            O = mk('O', [('f', ft)], mixin_base or None)
            # expected serialize trace: pre O, (pre X, post X)*, post O
            insts = val if isinstance(val, list) else (list(val.values()) if isinstance(val, dict) else ([val[0]] if isinstance(val, tuple) else [val]))
            exp = [('pre_s','O')] + [e for i in insts for e in (('pre_s', type(i).__name__), ('post_s', type(i).__name__))] + [('post_s','O')]
            o = O(val)
            for ep in ('mixin','codec'):
                if ep=='mixin' and not mixin_base: continue
                log.clear()
                try:
                    enc = o.to_dict() if ep=='mixin' else BasicEncoder(O).encode(o)
                except Exception as e:
                    print(label, sname, T.__name__, ep, "ENC EXC", type(e).__name__, e); continue
                got = [(k, n) for (k, n, *_) in log]
                if got != exp: print(label, sname, T.__name__, ep, "SER TRACE", got, "exp", exp)
                log.clear()
                try:
                    dec = O.from_dict(enc) if ep=='mixin' else BasicDecoder(O).decode(enc)
                except Exception as e:
                    print(label, sname, T.__name__, ep, "DEC EXC", type(e).__name__, e); continue
                posts = sorted(n for (k, n, *_) in log if k=='post_d')
                expp = sorted(['O'] + [type(i).__name__ for i in insts])
                if posts != expp: print(label, sname, T.__name__, ep, "POST_D", posts, "exp", expp, [ (k,n) for (k,n,*_) in log])
run(DataClassDictMixin, 'mixin-classes')
run(None, 'plain-classes')
print("done")
