import sys, json, collections, warnings, itertools
sys.path.insert(0, '/verif/.deps')
exec(open(__import__('os').path.join(__import__('os').path.dirname(__import__('os').path.abspath(__file__)), 'p13.py')).read().split("n=bad=0; shown=0; kinds")[0])
from dataclasses import make_dataclass, field
from mashumaro.config import BaseConfig
from mashumaro.dialect import Dialect
from mashumaro.jsonschema import build_json_schema, OPEN_API_3_1, DRAFT_2020_12, JSONSchemaBuilder
from mashumaro.jsonschema.models import JSONSchema
from jsonschema import Draft202012Validator
warnings.simplefilter('ignore')
sys.setrecursionlimit(300)
kinds = collections.Counter(); n=0; ex={}
class DOn(Dialect): omit_none=True
class DOd(Dialect): omit_default=True
class DBa(Dialect): serialize_by_alias=True
CFGS = {'default': {}, 'omit_none': {'omit_none': True}, 'omit_default': {'omit_default': True}, 'by_alias': {'serialize_by_alias': True, 'aliases': {'x': 'xa'}},
        'dial_on': {'dialect': DOn}, 'dial_od': {'dialect': DOd}, 'dial_ba': {'dialect': DBa, 'aliases': {'x':'xa'}}, 'sort': {'sort_keys': True}, 'lazy': {'lazy_compilation': True},
        'ntdict': {'namedtuple_as_dict': True}}
def refs(o):
    if isinstance(o, dict):
        for k,v in o.items():
            if k == '$ref': yield v
            else: yield from refs(v)
    elif isinstance(o, list):
        for v in o: yield from refs(v)
for s in schemas():
    if s[0] not in ('leaf','list','opt','dict'): continue
    if s[0]=='dict' and s[1][1] != 'str': continue
    T = mat(s)
    for v in values(s)[:3]:
        try: hash(v); dfl = {'default': v}
        except TypeError: dfl = {'default_factory': (lambda v=v: v)}
        for cname, cfg in CFGS.items():
            Cfg = type('Config', (BaseConfig,), cfg)
            try:
                P = make_dataclass('P', [('x', T, field(**dfl)), ('w', Optional[int], field(default=None))], namespace={'Config': Cfg})
            except Exception as e:
                kinds[('dc-create', type(e).__name__)] += 1; continue
            for dialect, all_refs, prefix in itertools.product((DRAFT_2020_12, OPEN_API_3_1), (False, True), (None, '#/x/')):
                n+=1
                try:
                    sch = build_json_schema(P, dialect=dialect, all_refs=all_refs, ref_prefix=prefix)
                    d = sch.to_dict()
                except NotImplementedError:
                    kinds[('unsupported', s[-1][1] if s[-1][0]=='leaf' else '')]+=1; continue
                except Exception as e:
                    k=('EXC', cname, type(e).__name__, 'factory' if 'default_factory' in dfl else 'default'); kinds[k]+=1; ex.setdefault(k, (s, repr(v)[:40], str(e)[:60])); continue
                try:
                    Draft202012Validator.check_schema(d)
                except Exception as e:
                    k=('META', cname, s[0]); kinds[k]+=1; ex.setdefault(k, (s, repr(v)[:40], str(e)[:80]))
                pre = (prefix.rstrip('/') if prefix else dialect.definitions_root_pointer)
                for r in refs(d):
                    if not r.startswith(pre + '/') or r[len(pre)+1:] not in (d.get('$defs') or {}):
                        k=('REF', cname); kinds[k]+=1; ex.setdefault(k,(s, r, list((d.get('$defs') or {}).keys())))
                try:
                    rt = JSONSchema.from_dict(d).to_dict()
                    if rt != d:
                        k=('RT', cname, s[0], s[-1][1] if s[-1][0]=='leaf' else ''); kinds[k]+=1; ex.setdefault(k,(s, repr(v)[:30], json.dumps(d)[:150], json.dumps(rt)[:150]))
                except Exception as e:
                    k=('RT-EXC', cname, type(e).__name__, s[-1][1] if s[-1][0]=='leaf' else ''); kinds[k]+=1; ex.setdefault(k,(s, repr(v)[:30], str(e)[:100], json.dumps(d, default=str)[:150]))
print("cases", n)
for k,v in sorted(kinds.items(), key=lambda kv: str(kv[0])): print(k, v, ex.get(k, ''))
