# REF_UNION_DECODE (DESIGN section 4.1) vs implementation: all ordered unions of 2 and 3 members x input pool
import itertools, datetime, collections, sys
from dataclasses import dataclass
from typing import *
from mashumaro.codecs.basic import BasicDecoder, BasicEncoder
date = datetime.date
@dataclass
class DC1:
    a: int
@dataclass
class DC2:
    b: str
class Rej(Exception): pass
SCAL = {'int': int, 'float': float, 'bool': bool, 'str': str, 'none': type(None)}
def dec_member(m, x):
    """member's own decoder per documentation; raises Rej"""
    try:
        if m in ('int','float','bool','str'): return SCAL[m](x)
        if m == 'none':
            return None   # the None member's own unpacker is the constant None; union logic restricts it
        if m == 'date':
            return date.fromisoformat(x)
        if m == 'list_int':
            return [int(v) for v in x]
        if m == 'dict_str_int':
            return {str(k): int(v) for k, v in x.items()}
        if m == 'dc1':
            if not isinstance(x, dict): raise Rej()
            return DC1(int(x['a']))
        if m == 'dc2':
            if not isinstance(x, dict): raise Rej()
            return DC2(str(x['b']))
        if m == 'lit_a':
            if x == 'a': return 'a'
            raise Rej()
        if m == 'tuple_int_str':
            return (int(x[0]), str(x[1]))
    except Rej: raise
    except Exception: raise Rej()
TYPES = {'int': int, 'float': float, 'bool': bool, 'str': str, 'none': type(None), 'date': date, 'list_int': List[int],
         'dict_str_int': Dict[str,int], 'dc1': DC1, 'dc2': DC2, 'lit_a': Literal['a'], 'tuple_int_str': Tuple[int,str]}
def ref_union(members, x):
    for m in members:
        if m in SCAL:
            if type(x) is SCAL[m]: return x
        else:
            try: return dec_member(m, x)
            except Rej: pass
    for m in members:
        if m in SCAL and m != 'none':
            try: return dec_member(m, x)
            except Rej: pass
    raise Rej()
POOL = [None, True, False, 0, 1, -1, 1.5, "", "1", "1.5", "abc", "a", "2020-01-01", [], [1], ["a","b"], [1,"x"], ["1", 2], {}, {"a":1}, {"b":"x"}, {"a":"q"}, {"1":1}, {"a":1,"b":"y"}]
def same(a,b):
    if type(a) is not type(b): return False
    if isinstance(a,(list,tuple)): return len(a)==len(b) and all(same(p,q) for p,q in zip(a,b))
    if isinstance(a,dict): return list(a)==list(b) and all(same(a[k],b[k]) for k in a)
    if isinstance(a,float): return repr(a)==repr(b)
    return a==b
n=bad=0; kinds=collections.Counter(); ex={}
names = list(TYPES)
for r in (2,3):
    for members in itertools.permutations(names, r):
        U = Union[tuple(TYPES[m] for m in members)]
        if getattr(U,'__origin__',None) is not Union: continue
        try:
            D = BasicDecoder(U)
        except Exception as e:
            kinds[('build', type(e).__name__)]+=1; continue
        opt = (len(members)==2 and 'none' in members)
        for x in POOL:
            n+=1
            try: exp = ('ok', ref_union(members, x))
            except Rej: exp = ('rej',)
            if opt:
                other = [m for m in members if m!='none'][0]
                if x is None: exp=('ok',None)
                else:
                    try: exp=('ok', dec_member(other, x))
                    except Rej: exp=('rej',)
            try: got = ('ok', D.decode(x))
            except Exception as e: got = ('rej',)
            if exp[0]!=got[0] or (exp[0]=='ok' and not same(exp[1], got[1])):
                bad+=1
                k = ('none-swallow' if (got==('ok',None) and x is not None and 'none' in members) else 'other', exp[0], got[0])
                kinds[k]+=1; ex.setdefault(k, []).append((members, x, exp, got))
print("cases", n, "bad", bad)
for k,v in kinds.items():
    print(k, v)
    for e in ex.get(k, [])[:8]: print("    ", e)
