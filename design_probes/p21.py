import sys
exec(open(__import__('os').path.join(__import__('os').path.dirname(__import__('os').path.abspath(__file__)), 'p7.py')).read().split("def harness():")[0])
import mashumaro; print(mashumaro.__file__)
from mashumaro.dialect import Dialect
import datetime
class D1(Dialect):
    serialization_strategy = {int: {'deserialize': lambda v: int(v)+1}}
class D2(Dialect):
    serialization_strategy = {int: {'deserialize': lambda v: int(v)+2}}
def harness():
    @dataclass
    class L(DataClassDictMixin):
        x: int
        class Config(BaseConfig):
            code_generation_options = [ADD_DIALECT_SUPPORT]
    return [lambda: L.from_dict({'x': 1}, dialect=D1).x, lambda: L.from_dict({'x': 1}, dialect=D2).x]
def explore(bound):
    n = 0; outcomes = {}
    stack = [[]]
    t0 = time.perf_counter()
    while stack:
        prefix = stack.pop()
        res, trace = Sched(prefix).run(harness())
        n += 1
        k = repr(sorted(res.items())); outcomes.setdefault(k, [0, prefix]); outcomes[k][0] += 1
        def cost(upto):
            return sum(1 for (ne, c, rse) in trace[:upto] if rse and c != 0)
        for i in range(len(prefix), len(trace)):
            ne, c, rse = trace[i]
            base = cost(i)
            for alt in range(1, ne):
                if base + (1 if rse else 0) > bound: continue
                stack.append([t[1] for t in trace[:i]] + [alt])
    return n, outcomes, time.perf_counter() - t0
for b in (0, 1, 2):
    n, out, dt = explore(b)
    print("bound", b, "execs", n, "outcomes", len(out), "time %.1fs" % dt)
    for k, v in out.items(): print("   ", v[0], k, "first schedule", v[1])
