import sys, types, itertools, collections, datetime, time
from dataclasses import dataclass, field, make_dataclass, asdict
from typing import *
from mashumaro import DataClassDictMixin
from mashumaro.config import BaseConfig, ADD_DIALECT_SUPPORT
from mashumaro.dialect import Dialect
sys.setrecursionlimit(120)
date = datetime.date
class D1(Dialect):
    serialization_strategy = {date: {'serialize': lambda v: v.strftime('%Y/%m/%d'), 'deserialize': lambda s: datetime.datetime.strptime(s, '%Y/%m/%d').date()}}
class D2(Dialect):
    omit_none = True
    serialization_strategy = {int: {'serialize': lambda v: v+100, 'deserialize': lambda v: int(v)-100}}
DIALECTS = {'n': None, 'D1': D1, 'D2': D2}
_ctr = itertools.count()
def build(mode, default_dialect=None, inner_support=False):
    """family: Inner(plain), C0(mixin, dialect support) <- C <- C2 ; C has field i: Inner, d: date, o: Optional[int]"""
    modname = f"vfam_{next(_ctr)}"
    mod = types.ModuleType(modname); sys.modules[modname] = mod
    def cfg(extra=None):
        ns = {'code_generation_options': [ADD_DIALECT_SUPPORT]}
        if mode == 'lazy': ns['lazy_compilation'] = True
        if default_dialect is not None: ns['dialect'] = default_dialect
        ns.update(extra or {})
        return type('Config', (BaseConfig,), ns)
    def put(cls):
        cls.__module__ = modname; setattr(mod, cls.__name__, cls); return cls
    def mk_inner():
        ns = {}
        if inner_support:
            ins = {'code_generation_options': [ADD_DIALECT_SUPPORT]}
            if default_dialect is not None: ins['dialect'] = default_dialect
            ns['Config'] = type('Config', (BaseConfig,), ins)
        c = make_dataclass('Inner', [('a', date), ('z', Optional[int], field(default=None))], namespace=ns); c.__module__ = modname; return c
    fam = {}
    if mode != 'postponed':
        fam['Inner'] = put(mk_inner())
    # create classes with string annotations so they resolve in module
    ns0 = {'__module__': modname, '__annotations__': {'d': 'date', 'o': 'Optional[int]'}, 'o': None, 'Config': cfg()}
    mod.date = date; mod.Optional = Optional
    C0 = put(dataclass(type('C0', (DataClassDictMixin,), ns0)))
    ns1 = {'__module__': modname, '__annotations__': {'i': 'Inner'}, 'i': None}
    C = put(dataclass(type('C', (C0,), ns1)))
    ns2 = {'__module__': modname, '__annotations__': {'e': 'int'}, 'e': 5}
    C2 = put(dataclass(type('C2', (C,), ns2)))
    if mode == 'postponed':
        fam['Inner'] = put(mk_inner())
    fam.update(C0=C0, C=C, C2=C2)
    return fam
def apply(fam, op):
    kind, dl, cn = op
    cls = fam[cn]; Inner = fam['Inner']
    kw = {} if DIALECTS[dl] is None else {'dialect': DIALECTS[dl]}
    try:
        if kind == 'to':
            args = dict(d=date(2020,1,2), o=None)
            if cn != 'C0': args['i'] = Inner(date(2021,3,4))
            if cn == 'C2': args['e'] = 7
            return ('ok', repr(cls(**args).to_dict(**kw)))
        else:
            fmt = (lambda x: x.strftime('%Y/%m/%d')) if dl=='D1' else (lambda x: x.isoformat())
            inp = {'d': fmt(date(2020,1,2)), 'o': None}
            # nested Inner is plain (no dialect support unless inner_support) -> uses iso always unless support
            inp_i = {'a': fmt(date(2021,3,4)) if fam.get('_inner_support') else date(2021,3,4).isoformat()}
            if cn != 'C0': inp['i'] = inp_i
            if cn == 'C2': inp['e'] = 107 if dl=='D2' else 7
            r = cls.from_dict(inp, **kw)
            return ('ok', repr(asdict(r)))
    except RecursionError:
        return ('exc', 'RecursionError')
    except Exception as e:
        return ('exc', type(e).__name__, str(e)[:80])
def canon(fam):
    out = []
    for cn in ('Inner','C0','C','C2'):
        cls = fam[cn]
        for k, v in sorted(cls.__dict__.items()):
            if k.startswith('__mashumaro') or k.startswith('__dialect') or k in ('to_dict','from_dict'):
                if isinstance(v, dict):
                    out.append((cn, k, tuple(sorted(getattr(x,'__name__',str(x)) for x in v))))
                else:
                    f = getattr(v, '__func__', v)
                    code = getattr(f, '__code__', None)
                    out.append((cn, k, 'stub' if code and 'CodeBuilder' in code.co_names else 'compiled'))
    return tuple(out)
def twin_outcome(op, inner_support):
    kind, dl, cn = op
    fam = build('eager', default_dialect=DIALECTS[dl], inner_support=inner_support); fam['_inner_support']=inner_support
    return apply(fam, (kind, 'n', cn)) if False else apply_with_twin(fam, op)
def apply_with_twin(fam, op):
    d0 = dict(DIALECTS)
    DIALECTS[op[1]] = None
    try:
        return apply(fam, op)
    finally:
        DIALECTS.update(d0)
for mode in ('eager','lazy','postponed'):
  for inner_support in (False, True):
    ALPH = [(k, dl, cn) for k in ('to','from') for dl in ('n','D1','D2') for cn in ('C0','C','C2')]
    oracle = {op: twin_outcome(op, inner_support) for op in ALPH}
    t0=time.time()
    fam0 = build(mode, inner_support=inner_support)
    seen = {canon(fam0)}; frontier = collections.deque([[]]); trans=0; viol = {}
    DEPTH = 2
    while frontier:
        h = frontier.popleft()
        for op in ALPH:
            fam = build(mode, inner_support=inner_support); fam['_inner_support']=inner_support
            for o in h: apply(fam, o)
            out = apply(fam, op); trans+=1
            if out != oracle[op]:
                key = (op, out[:2])
                if key not in viol: viol[key] = (h, out, oracle[op])
            k = canon(fam)
            if k not in seen and len(h)+1 < DEPTH:
                seen.add(k); frontier.append(h+[op])
    print(f"mode={mode} inner_support={inner_support} states={len(seen)} transitions={trans} violations={len(viol)} time={time.time()-t0:.1f}s")
    for key,(h,out,exp) in list(viol.items())[:6]:
        print("   hist", h, "op", key[0], "\n      got", out, "\n      exp", exp)
