import itertools, sys, dataclasses
from dataclasses import dataclass, field, MISSING, make_dataclass, KW_ONLY, InitVar
from typing import *
from mashumaro import DataClassDictMixin
from mashumaro.config import BaseConfig

KINDS = ['req', 'def', 'fac', 'kreq', 'kdef', 'noinit', 'optnone', 'optdef']
def mkfield(kind, i):
    name = f"f{i}"
    if kind == 'req': return (name, int)
    if kind == 'def': return (name, int, field(default=100+i))
    if kind == 'fac': return (name, List[int], field(default_factory=list))
    if kind == 'kreq': return (name, int, field(kw_only=True))
    if kind == 'kdef': return (name, int, field(default=200+i, kw_only=True))
    if kind == 'noinit': return (name, int, field(default=300+i, init=False))
    if kind == 'optnone': return (name, Optional[int], field(default=None))
    if kind == 'optdef': return (name, Optional[int], field(default=400+i))
n=bad=skipped=0
shown=0
for L in (1,2,3,4):
    for layout in itertools.product(KINDS, repeat=L):
        try:
            cls = make_dataclass('M', [mkfield(k,i) for i,k in enumerate(layout)], bases=(DataClassDictMixin,))
        except TypeError as e:
            skipped += 1; continue   # non-default after default
        for present in itertools.product((0,1,2), repeat=L):  # 0 absent, 1 present value, 2 present None
            d = {}; exp = {}; ok=True; expect_exc=None
            for i,(k,p) in enumerate(zip(layout,present)):
                name=f"f{i}"
                if p==2 and k not in ('optnone','optdef'): ok=False; break
                if p: d[name] = ( [5] if k=='fac' else 50+i ) if p==1 else None
                if k=='noinit':
                    exp[name]=300+i
                elif p==1: exp[name]=d[name]
                elif p==2: exp[name]=None
                else:
                    if k in ('req','kreq'):
                        if expect_exc is None: expect_exc=name
                    else: exp[name] = {'def':100+i,'fac':[],'kdef':200+i,'optnone':None,'optdef':400+i}[k]
            if not ok: continue
            n+=1
            try:
                r = cls.from_dict(d); got = dataclasses.asdict(r)
            except Exception as e:
                got = ('EXC', type(e).__name__, getattr(e,'field_name',None))
            want = ('EXC','MissingField',expect_exc) if expect_exc else exp
            if got != want:
                bad+=1
                if shown<10:
                    shown+=1; print("DIFF", layout, present, d, "\n  want", want, "\n  got", got)
print("cases", n, "bad", bad, "skipped layouts", skipped)
