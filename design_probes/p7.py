import sys, threading, time
from dataclasses import dataclass
from typing import *
from mashumaro import DataClassDictMixin
from mashumaro.config import BaseConfig, ADD_DIALECT_SUPPORT

class Sched:
    """baton scheduler: exactly one controlled thread runs at a time."""
    def __init__(self, choices):
        self.choices = list(choices)   # prefix of choices (index into enabled list)
        self.trace = []                # (n_enabled, chosen_idx, running_still_enabled)
        self.sems = {}
        self.done = set()
        self.current = None
        self.main = threading.Semaphore(0)
        self.results = {}
    def point(self, tid):
        # called by running thread at a scheduling point
        self.pick(tid)
        if self.current != tid:
            self.sems[self.current].release()
            self.sems[tid].acquire()
    def pick(self, running):
        enabled = [t for t in sorted(self.sems) if t not in self.done]
        if running in enabled:
            enabled.remove(running); enabled.insert(0, running)
        i = len(self.trace)
        c = self.choices[i] if i < len(self.choices) else 0
        self.trace.append((len(enabled), c, running in enabled))
        self.current = enabled[c]
    def run(self, bodies):
        def mk(tid, body):
            def tracer(frame, event, arg):
                if frame.f_code.co_filename == '<string>':
                    return local
                return None
            def local(frame, event, arg):
                if event == 'line':
                    self.point(tid)
                return local
            def target():
                self.sems[tid].acquire()
                sys.settrace(tracer)
                try:
                    try:
                        self.results[tid] = ('ok', body())
                    except BaseException as e:
                        self.results[tid] = ('exc', type(e).__name__, str(e)[:100])
                finally:
                    sys.settrace(None)
                    self.done.add(tid)
                    rest = [t for t in sorted(self.sems) if t not in self.done]
                    if rest:
                        self.pick(None)
                        self.sems[self.current].release()
                    else:
                        self.main.release()
            return threading.Thread(target=target)
        ths = []
        for tid, body in enumerate(bodies):
            self.sems[tid] = threading.Semaphore(0)
            ths.append(mk(tid, body))
        for t in ths: t.start()
        self.pick(None)
        self.sems[self.current].release()
        self.main.acquire()
        for t in ths: t.join()
        return self.results, self.trace

def harness():
    @dataclass
    class Inner:
        a: int
    @dataclass
    class L(DataClassDictMixin):
        x: int
        i: Inner
        class Config(BaseConfig):
            lazy_compilation = True
    return [lambda: L.from_dict({'x': 1, 'i': {'a': 2}}).x, lambda: L(1, Inner(2)).to_dict()['i']['a'], lambda: L.from_dict({'x': 3, 'i': {'a': 2}}).x]

def explore(bound):
    n = 0; outcomes = {}
    stack = [[]]
    t0 = time.perf_counter()
    while stack:
        prefix = stack.pop()
        res, trace = Sched(prefix).run(harness())
        n += 1
        outcomes[repr(sorted(res.items()))] = outcomes.get(repr(sorted(res.items())), 0) + 1
        # cost of prefix
        def cost(upto):
            return sum(1 for (ne, c, rse) in trace[:upto] if rse and c != 0)
        for i in range(len(prefix), len(trace)):
            ne, c, rse = trace[i]
            base = cost(i)
            for alt in range(1, ne):
                cst = base + (1 if rse else 0)
                if cst > bound: continue
                stack.append([t[1] for t in trace[:i]] + [alt])
    return n, outcomes, time.perf_counter() - t0
for b in (0, 1, 2):
    n, out, dt = explore(b)
    print("bound", b, "execs", n, "outcomes", len(out), "time %.1fs" % dt)
    for k, v in out.items(): print("   ", v, k)
