import datetime, traceback, sys
from dataclasses import dataclass, field
from typing import *
from mashumaro import DataClassDictMixin, field_options, pass_through
from mashumaro.config import BaseConfig, ADD_DIALECT_SUPPORT, TO_DICT_ADD_OMIT_NONE_FLAG, TO_DICT_ADD_BY_ALIAS_FLAG
from mashumaro.dialect import Dialect
from mashumaro.codecs.basic import BasicDecoder, BasicEncoder
from mashumaro.core.helpers import parse_timezone

def t(name, f):
    try:
        print(name, '->', repr(f()))
    except RecursionError as e:
        print(name, 'RAISED RecursionError')
    except BaseException as e:
        print(name, 'RAISED', type(e).__name__, str(e)[:200])

tz = datetime.timezone(datetime.timedelta(minutes=-30))
t("tz", lambda: (tz.tzname(None), parse_timezone(tz.tzname(None)), parse_timezone(tz.tzname(None)) == tz))

t("union none", lambda: BasicDecoder(Union[int, None, datetime.date]).decode('garbage'))
@dataclass
class U(DataClassDictMixin):
    x: Union[int, None, datetime.date]
t("union none dc", lambda: U.from_dict({'x': 'garbage'}))

# Dialect merge
from mashumaro.codecs.orjson import ORJSONEncoder
from mashumaro.codecs.json import JSONEncoder
class NT(NamedTuple):
    a: int
    b: int
class D1(Dialect):
    namedtuple_as_dict = True
    serialize_by_alias = True
@dataclass
class A:
    x: int = field(metadata={'alias': 'xx'}, default=1)
    n: NT = NT(1,2)
t("merge basic", lambda: BasicEncoder(A, default_dialect=D1).encode(A()))
t("merge json", lambda: JSONEncoder(A, default_dialect=D1).encode(A()))
t("merge orjson", lambda: ORJSONEncoder(A, default_dialect=D1).encode(A()))

# lazy + dialect
@dataclass
class L(DataClassDictMixin):
    x: int
    class Config(BaseConfig):
        lazy_compilation = True
        code_generation_options = [ADD_DIALECT_SUPPORT]
class D2(Dialect):
    serialization_strategy = {int: {'serialize': lambda v: v+1, 'deserialize': lambda v: v-1}}
sys.setrecursionlimit(300)
t("lazy dialect to_dict", lambda: L(1).to_dict(dialect=D2))
t("lazy dialect from_dict", lambda: L.from_dict({'x':1}, dialect=D2))
t("lazy plain", lambda: (L(1).to_dict(), L.from_dict({'x':1})))
sys.setrecursionlimit(1000)

# hooks twice
log=[]
@dataclass
class H1:
    a: int
    def __pre_serialize__(self):
        log.append(('pre','H1')); return self
@dataclass
class H2:
    b: str
    def __pre_serialize__(self):
        log.append(('pre','H2')); return self
t("hooks codec", lambda: (BasicEncoder(Union[H1,H2]).encode(H2('x')), list(log)))
log.clear()
@dataclass
class HM1(DataClassDictMixin):
    a: int
    def __pre_serialize__(self):
        log.append(('pre','HM1')); return self
@dataclass
class HM2(DataClassDictMixin):
    b: str
    def __pre_serialize__(self):
        log.append(('pre','HM2')); return self
@dataclass
class HO(DataClassDictMixin):
    u: Union[HM1,HM2]
t("hooks mixin", lambda: (HO(HM2('x')).to_dict(), list(log)))

# alias quote
def mk():
    @dataclass
    class Q(DataClassDictMixin):
        x: int = field(metadata={'alias': "it's"})
    return Q(1).to_dict(), Q.from_dict({"it's": 2})
t("alias quote", mk)
def mk2():
    @dataclass
    class Q(DataClassDictMixin):
        x: int = field(metadata={'alias': "a\\"})
        class Config(BaseConfig):
            serialize_by_alias=True
    return Q(1).to_dict(), Q.from_dict({"a\\": 2})
t("alias backslash", mk2)

# not by alias with no alias
def mk3():
    @dataclass
    class Q(DataClassDictMixin):
        x: int
        y: int = 5
        class Config(BaseConfig):
            allow_deserialization_not_by_alias=True
    return Q.from_dict({"None": 7, "x": 1, "y": 2}), Q.from_dict({"None": 7})
t("not by alias None key", mk3)
