import datetime, traceback, sys, enum, collections, types
from dataclasses import dataclass, field
from typing import *
from mashumaro import DataClassDictMixin, field_options, pass_through
from mashumaro.config import BaseConfig, ADD_DIALECT_SUPPORT
from mashumaro.dialect import Dialect
from mashumaro.types import Discriminator, Alias
from mashumaro.codecs.basic import BasicDecoder, BasicEncoder
from mashumaro.jsonschema import build_json_schema, JSONSchemaBuilder, OPEN_API_3_1

def t(name, f):
    try:
        print(name, '->', repr(f()))
    except RecursionError as e:
        print(name, 'RAISED RecursionError')
    except BaseException as e:
        print(name, 'RAISED', type(e).__name__, str(e)[:300])

# schema
@dataclass
class S1:
    x: Optional[int] = None
    class Config(BaseConfig):
        omit_none = True
t("schema omit_none default", lambda: build_json_schema(S1).to_dict())
@dataclass
class S2:
    x: int = 1
    class Config(BaseConfig):
        omit_default = True
t("schema omit_default", lambda: build_json_schema(S2).to_dict())
@dataclass
class S3:
    x: int = field(default=1, metadata={'alias': 'y'})
    class Config(BaseConfig):
        serialize_by_alias = True
t("schema by_alias default", lambda: build_json_schema(S3).to_dict())
@dataclass
class Node:
    nxt: Optional['Node'] = None
sys.setrecursionlimit(400)
t("schema selfref", lambda: build_json_schema(Node).to_dict())
t("schema selfref allrefs", lambda: build_json_schema(Node, all_refs=True).to_dict())
sys.setrecursionlimit(1000)
class Fl(enum.Flag):
    A=1
    B=2
t("schema flag", lambda: build_json_schema(Fl).to_dict())
t("schema int map", lambda: build_json_schema(Dict[int,str]).to_dict())
t("schema tuple unpack", lambda: build_json_schema(Tuple[int, Unpack[Tuple[str, ...]]]).to_dict())
t("schema tuple unpack2", lambda: build_json_schema(Tuple[int, Unpack[Tuple[str, str]], float]).to_dict())
T=TypeVar('T')
@dataclass
class G(Generic[T]):
    v: T
@dataclass
class GG:
    a: G[int]
    b: G[str]
t("schema generic all_refs", lambda: build_json_schema(GG, all_refs=True).to_dict())
@dataclass
class AA:
    x: Annotated[int, Alias('ax')]
t("schema annotated alias", lambda: (build_json_schema(AA).to_dict(), BasicEncoder(AA).encode(AA(1))))

# same named classes
def mkA():
    @dataclass
    class X:
        a: int
    return X
X1 = mkA(); X2 = mkA()
@dataclass
class Hold(DataClassDictMixin):
    p: X1
    q: X2
r = Hold.from_dict({'p': {'a':1}, 'q': {'a': 2}})
print("same-name", type(r.p) is X1, type(r.q) is X2)
E1 = enum.Enum('E', {'A': 1}); E2 = enum.Enum('E', {'A': 1, 'B': 2})
@dataclass
class HoldE(DataClassDictMixin):
    p: E1
    q: E2
t("same-name enum", lambda: (lambda r: (type(r.p) is E1, type(r.q) is E2))(HoldE.from_dict({'p': 1, 'q': 2})))
def mk_dd():
    @dataclass
    class V:
        a: int = 0
    @dataclass
    class DD(DataClassDictMixin):
        d: DefaultDict[str, V]
    r = DD.from_dict({'d': {'k': {'a': 1}}})
    return r, r.d['zz']
t("defaultdict local", mk_dd)
@dataclass
class DD2(DataClassDictMixin):
    d: DefaultDict[str, List[int]]
t("defaultdict list", lambda: (lambda r: (r, r.d['zz']))(DD2.from_dict({'d': {'k': [1]}})))
class MyStr(str): pass
def mk_ms():
    class LS(str): pass
    return BasicDecoder(Union[LS, int]).decode(5), BasicDecoder(Union[LS,int]).decode('a')
t("local str union", mk_ms)

# C05: non-dict
@dataclass
class P(DataClassDictMixin):
    x: int
    y: str = 'a'
for bad in [None, 1, 'abc', [1], [('x',1)], (), 1.5]:
    t(f"from_dict({bad!r})", lambda: P.from_dict(bad))
@dataclass
class E0(DataClassDictMixin):
    pass
for bad in [None, 1, [1]]:
    t(f"E0.from_dict({bad!r})", lambda: E0.from_dict(bad))
@dataclass
class PD(DataClassDictMixin):
    x: int = 1
t("PD.from_dict(None)", lambda: PD.from_dict(None))
@dataclass
class Base(DataClassDictMixin):
    class Config(BaseConfig):
        discriminator = Discriminator(field='t', include_subtypes=True)
@dataclass
class Sub1(Base):
    t: ClassVar[str] = 's1'
    x: int = 0
for bad in [None, 1, 'abc', [1], {'t': []}, {'t': 's1', 'x': 'q'}, {'t':'zz'}, {}]:
    t(f"Base.from_dict({bad!r})", lambda: Base.from_dict(bad))
