import sys, collections
sys.argv=['x']
exec(open(__import__('os').path.join(__import__('os').path.dirname(__import__('os').path.abspath(__file__)), 'p13.py')).read().split("n=bad=0; shown=0; kinds")[0])
from dataclasses import make_dataclass, field
from mashumaro import DataClassDictMixin
from mashumaro.codecs.basic import BasicEncoder, BasicDecoder, encode, decode
n=bad=0
for s in schemas():
    T = mat(s)
    P = make_dataclass('P', [('x', T)])
    M = make_dataclass('M', [('x', T)], bases=(DataClassDictMixin,))
    OP = make_dataclass('OP', [('f', P)], bases=(DataClassDictMixin,))
    OM = make_dataclass('OM', [('f', M)], bases=(DataClassDictMixin,))
    encs = {}
    for v in values(s):
        n+=1
        p = P(v); m = M(v)
        try:
            r = {
              'mixin': m.to_dict(),
              'codecM': BasicEncoder(M).encode(m),
              'codecP': BasicEncoder(P).encode(p),
              'oneshot': encode(p, P),
              'list': BasicEncoder(List[P]).encode([p])[0],
              'dict': BasicEncoder(Dict[str,M]).encode({'k': m})['k'],
              'tuple': BasicEncoder(Tuple[P,int]).encode((p,1))[0],
              'opt': BasicEncoder(Optional[P]).encode(p),
              'nestedP': OP(p).to_dict()['f'],
              'nestedM': OM(m).to_dict()['f'],
            }
        except Exception as e:
            bad+=1; print("EXC", s, type(e).__name__, e); continue
        ref = r['mixin']
        for k, val in r.items():
            if not same(val, ref):
                bad+=1; print("ENC DISAGREE", s, k, repr(val)[:80], repr(ref)[:80])
        try:
            d = {
              'mixin': M.from_dict(ref).x,
              'codecM': BasicDecoder(M).decode(ref).x,
              'codecP': BasicDecoder(P).decode(ref).x,
              'oneshot': decode(ref, P).x,
              'list': BasicDecoder(List[P]).decode([ref])[0].x,
              'nestedP': OP.from_dict({'f': ref}).f.x,
              'nestedM': OM.from_dict({'f': ref}).f.x,
            }
        except Exception as e:
            bad+=1; print("DEC EXC", s, type(e).__name__, e); continue
        for k, val in d.items():
            if not same(val, d['mixin']):
                bad+=1; print("DEC DISAGREE", s, k, repr(val)[:80])
print("cases", n, "bad", bad)
