# C04 probe: format round trip and parse_F(encode_F(v)) ~ encode_basic(v) over depth-2 schemas
import os, sys, json, collections, math
exec(open(os.path.join(os.path.dirname(os.path.abspath(__file__)), 'p13.py')).read().split("n=bad=0; shown=0; kinds")[0])
import orjson, yaml, msgpack, tomllib, tomli_w
from dataclasses import make_dataclass
from mashumaro.mixins.json import DataClassJSONMixin
from mashumaro.mixins.orjson import DataClassORJSONMixin
from mashumaro.mixins.yaml import DataClassYAMLMixin
from mashumaro.mixins.msgpack import DataClassMessagePackMixin
from mashumaro.mixins.toml import DataClassTOMLMixin
from mashumaro.codecs.json import JSONEncoder, JSONDecoder
from mashumaro.codecs.orjson import ORJSONEncoder, ORJSONDecoder
from mashumaro.codecs.yaml import YAMLEncoder, YAMLDecoder
from mashumaro.codecs.msgpack import MessagePackEncoder, MessagePackDecoder
from mashumaro.codecs.toml import TOMLEncoder, TOMLDecoder
FMT = {
 'json':   (DataClassJSONMixin, 'to_json', 'from_json', JSONEncoder, JSONDecoder, json.loads),
 'orjson': (DataClassORJSONMixin, 'to_jsonb', 'from_json', ORJSONEncoder, ORJSONDecoder, orjson.loads),
 'yaml':   (DataClassYAMLMixin, 'to_yaml', 'from_yaml', YAMLEncoder, YAMLDecoder, lambda s: yaml.load(s, getattr(yaml,'CSafeLoader', yaml.SafeLoader))),
 'msgpack':(DataClassMessagePackMixin, 'to_msgpack', 'from_msgpack', MessagePackEncoder, MessagePackDecoder, lambda b: msgpack.unpackb(b, raw=False)),
 'toml':   (DataClassTOMLMixin, 'to_toml', 'from_toml', TOMLEncoder, TOMLDecoder, tomllib.loads),
}
def leaves_of(s):
    if s[0]=='leaf': yield s[1]
    else:
        for c in s[1:]:
            if isinstance(c, tuple): yield from leaves_of(c)
def representable(fmt, s, v):
    lv = set(leaves_of(s))
    if fmt in ('orjson','msgpack','toml'):
        if s[0] in ('dict','mapping','ordered','chain') and s[1][1] != 'str': return False
    if fmt in ('orjson','msgpack') and 'int' in lv and 2**63 in (v if isinstance(v,(list,tuple,set,frozenset)) else [v]): return False
    if fmt in ('orjson','msgpack') and 'int' in lv: 
        def big(x):
            if isinstance(x,bool): return False
            if isinstance(x,int): return abs(x) >= 2**63
            if isinstance(x,dict): return any(big(k) or big(t) for k,t in x.items())
            if isinstance(x,(list,tuple,set,frozenset,collections.deque)): return any(big(t) for t in x)
            if isinstance(x,collections.ChainMap): return any(big(m) for m in x.maps)
            return False
        if big(v): return False
    if fmt in ('orjson','toml') and ('time' in lv or 'datetime' in lv):
        def aware_time(x):
            import datetime as _d
            if isinstance(x,_d.time) and not isinstance(x,_d.datetime): return x.tzinfo is not None
            if isinstance(x,dict): return any(aware_time(t) for t in x.values())
            if isinstance(x,(list,tuple,set,frozenset,collections.deque)): return any(aware_time(t) for t in x)
            if isinstance(x,collections.ChainMap): return any(aware_time(m) for m in x.maps)
            return False
        if aware_time(v): return False
    if fmt == 'toml':
        # no nulls anywhere except as omitted dataclass field; any leaves restricted
        def has_none(x):
            if x is None: return True
            if isinstance(x,dict): return any(has_none(t) for t in x.values())
            if isinstance(x,(list,tuple,collections.deque)): return any(has_none(t) for t in x)
            if isinstance(x,collections.ChainMap): return any(has_none(m) for m in x.maps)
            return False
        if s[0] != 'opt' and has_none(v): return False
        if s[0] == 'opt' and v is not None and has_none(v): return False
        if 'none' in lv and s[0] != 'leaf': return False
    return True
def norm_basic(fmt, s, basic, v):
    """expected parse result: basic form with native types mapped"""
    return basic
n=bad=0; kinds=collections.Counter(); ex={}
for s in schemas():
    T = mat(s)
    for fmt,(Mix, to_m, from_m, Enc, Dec, parse) in FMT.items():
        M = make_dataclass('M', [('x', T)], bases=(Mix,))
        P = make_dataclass('P', [('x', T)])
        try:
            enc = Enc(P); dec = Dec(P)
        except Exception as e:
            kinds[(fmt,'codec-build',type(e).__name__)]+=1; continue
        basicE = BasicEncoder(P)
        for v in values(s):
            if not representable(fmt, s, v): continue
            n+=1
            key = (fmt, s[0], s[-1][1] if s[-1][0]=='leaf' else '')
            try:
                doc_m = getattr(M(v), to_m)()
                back_m = getattr(M, from_m)(doc_m)
                doc_c = enc.encode(P(v)); back_c = dec.decode(doc_c)
            except Exception as e:
                bad+=1; k=key+('EXC',type(e).__name__); kinds[k]+=1; ex.setdefault(k,(repr(v)[:50], str(e)[:80])); continue
            if not same(back_m.x, v) or not same(back_c.x, v):
                bad+=1; k=key+('RT',); kinds[k]+=1; ex.setdefault(k,(repr(v)[:50], repr(back_m.x)[:50])); continue
            if doc_m != doc_c:
                bad+=1; k=key+('MIXIN!=CODEC',); kinds[k]+=1; ex.setdefault(k,(repr(doc_m)[:60], repr(doc_c)[:60]))
            basic = basicE.encode(P(v))
            parsed = parse(doc_c)
            if fmt == 'toml': basic = {k2:v2 for k2,v2 in basic.items() if v2 is not None}
            if fmt in ('json','yaml') or True:
                # compare via re-decoding both with the Basic decoder: parsed must decode to same value when native types equal
                try:
                    if fmt in ('json','yaml'):
                        ok = same(json.loads(json.dumps(basic)) if fmt=='json' else basic, parsed) or (fmt=='yaml' and parsed == basic)
                    else:
                        ok = None
                except Exception:
                    ok = None
                if ok is False:
                    bad+=1; k=key+('PARSE!=BASIC',); kinds[k]+=1; ex.setdefault(k,(repr(basic)[:70], repr(parsed)[:70]))
print("cases", n, "bad", bad)
for k,v in sorted(kinds.items(), key=str): print(k, v, ex.get(k,''))
