import sys, threading, time, collections
from dataclasses import dataclass
from typing import *
from mashumaro import DataClassDictMixin
from mashumaro.config import BaseConfig, ADD_DIALECT_SUPPORT

def mk():
    @dataclass
    class Inner:
        a: int
    @dataclass
    class L(DataClassDictMixin):
        x: int
        i: Inner
        class Config(BaseConfig):
            lazy_compilation = True
    return L, Inner

# count line events in generated code and in selected helper functions during a first call
cnt = collections.Counter()
def tracer(frame, event, arg):
    fn = frame.f_code.co_filename
    if fn == '<string>':
        return local
    if frame.f_code.co_name in ('get_class_that_defines_method',) :
        cnt['gctdm call'] += 1
    return None
def local(frame, event, arg):
    if event == 'line':
        cnt['gen line'] += 1
    return local
L, Inner = mk()
t0=time.perf_counter()
sys.settrace(tracer)
L.from_dict({'x': 1, 'i': {'a': 2}})
sys.settrace(None)
print(cnt, time.perf_counter()-t0)
cnt.clear()
t0=time.perf_counter()
sys.settrace(tracer)
L.from_dict({'x': 1, 'i': {'a': 2}})
L(1, Inner(2)).to_dict()
sys.settrace(None)
print(cnt, time.perf_counter()-t0)
t0=time.perf_counter()
for _ in range(100):
    mk()
print("class creation lazy", (time.perf_counter()-t0)/100)
t0=time.perf_counter()
for _ in range(100):
    L,I=mk(); L.from_dict({'x': 1, 'i': {'a': 2}})
print("create+first call", (time.perf_counter()-t0)/100)
from mashumaro.codecs.basic import BasicDecoder, BasicEncoder
import datetime
t0=time.perf_counter()
for _ in range(200):
    BasicEncoder(Dict[str, List[Optional[datetime.date]]]); BasicDecoder(Dict[str, List[Optional[datetime.date]]])
print("codec pair create", (time.perf_counter()-t0)/200)
