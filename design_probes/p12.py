import itertools, sys
from dataclasses import dataclass, field, make_dataclass
from typing import *
from mashumaro import DataClassDictMixin, pass_through
from mashumaro.config import BaseConfig, ADD_DIALECT_SUPPORT
from mashumaro.dialect import Dialect
from mashumaro.types import SerializationStrategy
from mashumaro.codecs.basic import BasicEncoder, BasicDecoder

# Type keys: alias = Annotated[List[int], 'tag'] ; exact = List[int]; origin = list
Ann = Annotated[List[int], 'tag']
KEYS = {'alias': Ann, 'exact': List[int], 'origin': list}
KEY_ORDER = ['alias', 'exact', 'origin']
LEVELS = ['fopt', 'fstrat', 'calld', 'cfgd', 'cfgss', 'fmtd']  # fmtd = codec default_dialect

def ser(marker): return lambda v: ('S', marker)
def de(marker): return lambda v: ('D', marker)
class Strat(SerializationStrategy):
    def __init__(self, m): self.m = m
    def serialize(self, v): return ('S', self.m)
    def deserialize(self, v): return ('D', self.m)

def reg(level, keys):
    return {KEYS[k]: {'serialize': ser(f'{level}:{k}'), 'deserialize': de(f'{level}:{k}')} for k in keys}

n=bad=0; shown=0
keysets = [ks for r in (1,2,3) for ks in itertools.combinations(KEY_ORDER, r)]
for enabled in itertools.product((0,1), repeat=6):
    L = [l for l,e in zip(LEVELS, enabled) if e]
    # for key-bearing levels choose keysets: to bound, each key-bearing level uses same keyset choice from a small list
    for ks_choice in itertools.product(keysets, repeat=sum(1 for l in L if l in ('calld','cfgd','cfgss','fmtd'))):
        it = iter(ks_choice)
        meta = {}
        if 'fopt' in L:
            meta['serialize'] = ser('fopt'); meta['deserialize'] = de('fopt')
        if 'fstrat' in L:
            meta['serialization_strategy'] = Strat('fstrat')
        cfg = {'code_generation_options': [ADD_DIALECT_SUPPORT]}
        calld = None; fmtd=None
        cand = []  # (rank tuple, marker)
        if 'fopt' in L: cand.append(((0,0,0),'fopt'))
        if 'fstrat' in L: cand.append(((1,0,0),'fstrat'))
        for li,l in enumerate(LEVELS):
            if l in ('calld','cfgd','cfgss','fmtd') and l in L:
                ks = next(it)
                for k in ks: cand.append(((2, KEY_ORDER.index(k), li), f'{l}:{k}'))
                if l=='calld': calld = type('CD',(Dialect,),{'serialization_strategy': reg(l,ks)})
                if l=='cfgd': cfg['dialect'] = type('GD',(Dialect,),{'serialization_strategy': reg(l,ks)})
                if l=='cfgss': cfg['serialization_strategy'] = reg(l,ks)
                if l=='fmtd': fmtd = type('FD',(Dialect,),{'serialization_strategy': reg(l,ks)})
        want = min(cand)[1] if cand else None
        Cfg = type('Config',(BaseConfig,),cfg)
        # mixin path (no fmtd unless via codec) -> use codec for fmtd; mixin for calld
        results = {}
        if fmtd is None:
            cls = make_dataclass('M',[('x', Ann, field(metadata=meta))], bases=(DataClassDictMixin,), namespace={'Config':Cfg})
            kw = {'dialect': calld} if calld else {}
            results['mixin'] = (cls([1]).to_dict(**kw)['x'], cls.from_dict({'x':[1]}, **kw).x)
        if calld is None:
            pl = make_dataclass('P',[('x', Ann, field(metadata=meta))], namespace={'Config':Cfg})
            kw = {'default_dialect': fmtd} if fmtd else {}
            results['codec'] = (BasicEncoder(pl, **kw).encode(pl([1]))['x'], BasicDecoder(pl, **kw).decode({'x':[1]}).x)
        for ep,(s,d) in results.items():
            n+=1
            ws = ('S',want) if want else [1]; wd = ('D',want) if want else [1]
            if s!=ws or d!=wd:
                bad+=1
                if shown<10: shown+=1; print("DIFF", ep, L, ks_choice, "want", want, "got", s, d)
print("cases", n, "bad", bad)
