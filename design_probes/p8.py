import itertools, sys
from dataclasses import dataclass, field, MISSING
from typing import *
from mashumaro import DataClassDictMixin
from mashumaro.config import BaseConfig, TO_DICT_ADD_OMIT_NONE_FLAG, TO_DICT_ADD_BY_ALIAS_FLAG, ADD_DIALECT_SUPPORT
from mashumaro.dialect import Dialect
from mashumaro.core.const import Sentinel

TRI = (None, False, True)
bad = 0; n = 0
seen=set()
def project(plain_items, o):
    # plain_items: list of (fname, alias, rawvalue, default, packed)
    items = list(plain_items)
    if o['sort_keys']:
        items.sort(key=lambda t: t[0])
    out = {}
    for fname, alias, raw, default, packed in items:
        if o['omit_none'] and packed is None: continue
        if o['omit_default'] and default is not MISSING and raw == default: continue
        out[alias if (o['by_alias'] and alias) else fname] = packed
    return out

for cfg_on, cfg_od, cfg_ba, sk, flags_mask in itertools.product(TRI, TRI, TRI, (False, True), range(4)):
    flags = []
    if flags_mask & 1: flags.append(TO_DICT_ADD_OMIT_NONE_FLAG)
    if flags_mask & 2: flags.append(TO_DICT_ADD_BY_ALIAS_FLAG)
    ns = {}
    if cfg_on is not None: ns['omit_none'] = cfg_on
    if cfg_od is not None: ns['omit_default'] = cfg_od
    if cfg_ba is not None: ns['serialize_by_alias'] = cfg_ba
    ns['sort_keys'] = sk
    ns['code_generation_options'] = flags
    ns['aliases'] = {'c': 'c_al'}
    Cfg = type('Config', (BaseConfig,), ns)
    @dataclass
    class M(DataClassDictMixin):
        z: int
        b: Optional[int] = field(default=None, metadata={'alias': 'b_al'})
        c: Optional[str] = 'dflt'
        a: int = 7
        l: List[int] = field(default_factory=list)
        o: Optional[List[int]] = None
        Config = Cfg
    fields = [('z', None, MISSING), ('b', 'b_al', None), ('c', 'c_al', 'dflt'), ('a', None, 7), ('l', None, []), ('o', None, None)]
    for vals in itertools.product((1,), (None, 3), (None, 'dflt', 'x'), (7, 8), ([], [1]), (None, [], [2])):
        inst = M(*vals)
        kw_opts = [{}]
        if flags_mask & 1: kw_opts = [dict(k, omit_none=v) for k in kw_opts for v in (False, True)] + kw_opts
        if flags_mask & 2: kw_opts = [dict(k, by_alias=v) for k in kw_opts for v in (False, True)] + kw_opts
        for kw in kw_opts:
            o = dict(omit_none=kw.get('omit_none', bool(cfg_on)), omit_default=bool(cfg_od), by_alias=kw.get('by_alias', bool(cfg_ba)), sort_keys=sk)
            plain = [(f, al, v, d, v) for (f, al, d), v in zip(fields, vals)]
            exp = project(plain, o)
            try:
                got = inst.to_dict(**kw)
            except Exception as e:
                got = ('EXC', type(e).__name__, str(e))
            n += 1
            if got != exp or (isinstance(got, dict) and list(got) != list(exp)):
                bad += 1
                key = (cfg_on, cfg_od, cfg_ba, sk, flags_mask, tuple(sorted(kw.items())))
                if len(seen) < 12 and key not in seen:
                    seen.add(key)
                    print("DIFF", key, vals, "\n   exp", exp, "\n   got", got)
print("cases", n, "bad", bad)
