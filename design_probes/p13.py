# micro reference-model prototype: depth-2 over a subset, roundtrip + ref_encode + ref_decode on foreign inputs
import datetime as dt, uuid, decimal, fractions, ipaddress, pathlib, re, enum, collections, itertools, sys, copy, types
from base64 import encodebytes, decodebytes
from typing import *
from mashumaro.codecs.basic import BasicEncoder, BasicDecoder

class ES(enum.Enum):
    A='a'; B='b'
class FL(enum.Flag):
    X=1; Y=2
LEAVES = {
 'int': (int, [0, -1, 2**63]),
 'float': (float, [0.0, 1.5, -2.25]),
 'bool': (bool, [True, False]),
 'str': (str, ['', 'a', '1', '2020-01-01']),
 'bytes': (bytes, [b'', b'a', bytes(range(256))]),
 'bytearray': (bytearray, [bytearray(b'ab')]),
 'datetime': (dt.datetime, [dt.datetime(2000,1,1), dt.datetime(2000,1,1,1,2,3,4, tzinfo=dt.timezone(dt.timedelta(hours=-3)))]),
 'date': (dt.date, [dt.date(2020,2,29)]),
 'time': (dt.time, [dt.time(23,59,59,999999), dt.time(1,2,tzinfo=dt.timezone.utc)]),
 'timedelta': (dt.timedelta, [dt.timedelta(0), dt.timedelta(seconds=-1.5), dt.timedelta(days=1, microseconds=1)]),
 'timezone': (dt.timezone, [dt.timezone.utc, dt.timezone(dt.timedelta(hours=3)), dt.timezone(dt.timedelta(hours=-3, minutes=-30)), dt.timezone(dt.timedelta(minutes=1))]),
 'uuid': (uuid.UUID, [uuid.UUID(int=0), uuid.UUID('12345678-1234-5678-1234-567812345678')]),
 'decimal': (decimal.Decimal, [decimal.Decimal('0'), decimal.Decimal('-1.50'), decimal.Decimal('1E+3')]),
 'fraction': (fractions.Fraction, [fractions.Fraction(1,3), fractions.Fraction(-7,2)]),
 'ipv4': (ipaddress.IPv4Address, [ipaddress.IPv4Address('1.2.3.4')]),
 'ipv6net': (ipaddress.IPv6Network, [ipaddress.IPv6Network('::/64')]),
 'path': (pathlib.Path, [pathlib.Path('/a/b'), pathlib.Path('.')]),
 'purepath': (pathlib.PurePath, [pathlib.PurePath('a b')]),
 'pattern': (re.Pattern, [re.compile('a+b'), re.compile('')]),
 'enum': (ES, [ES.A, ES.B]),
 'flag': (FL, [FL.X, FL.X|FL.Y, FL(0)]),
 'none': (type(None), [None]),
 'any': (Any, [1, 'a', None, [1]]),
}
def enc_leaf(k, v):
    if k in ('int','float','bool','str','none','any'): return v
    if k in ('bytes','bytearray'): return encodebytes(v).decode()
    if k in ('datetime','date','time'): return v.isoformat()
    if k=='timedelta': return v.total_seconds()
    if k=='timezone':
        off = v.utcoffset(None)
        if off == dt.timedelta(0): return 'UTC'
        s = '-' if off < dt.timedelta(0) else '+'
        off = abs(off); m = off.days*1440 + off.seconds//60
        return f'UTC{s}{m//60:02d}:{m%60:02d}'
    if k in ('uuid','decimal','fraction','ipv4','ipv6net'): return str(v)
    if k in ('path','purepath'): return v.__fspath__()
    if k=='pattern': return v.pattern
    if k in ('enum','flag'): return v.value
HASHABLE = ['int','str','date','enum','uuid','bool']
def schemas():
    for k in LEAVES: yield ('leaf', k)
    for k in LEAVES:
        l = ('leaf', k)
        for c in ('list','tuplevar','deque','sequence','opt'):
            yield (c, l)
        if k in HASHABLE:
            yield ('set', l); yield ('frozenset', l)
        yield ('tuple2', l, ('leaf','int'))
        for kk in HASHABLE:
            yield ('dict', ('leaf', kk), l)
        yield ('ordered', ('leaf','str'), l)
        yield ('chain', ('leaf','str'), l)
        yield ('mapping', ('leaf','str'), l)
def mat(s):
    t = s[0]
    if t=='leaf': return LEAVES[s[1]][0]
    if t=='list': return List[mat(s[1])]
    if t=='tuplevar': return Tuple[mat(s[1]), ...]
    if t=='deque': return Deque[mat(s[1])]
    if t=='sequence': return Sequence[mat(s[1])]
    if t=='opt': return Optional[mat(s[1])]
    if t=='set': return Set[mat(s[1])]
    if t=='frozenset': return FrozenSet[mat(s[1])]
    if t=='tuple2': return Tuple[mat(s[1]), mat(s[2])]
    if t=='dict': return Dict[mat(s[1]), mat(s[2])]
    if t=='ordered': return collections.OrderedDict[mat(s[1]), mat(s[2])]
    if t=='chain': return ChainMap[mat(s[1]), mat(s[2])]
    if t=='mapping': return Mapping[mat(s[1]), mat(s[2])]
def values(s):
    t = s[0]
    if t=='leaf': return list(LEAVES[s[1]][1])
    if t=='opt': return [None] + values(s[1])
    if t in ('list','sequence'):
        vs = values(s[1]); return [[], [vs[0]], list(vs)]
    if t=='tuplevar':
        vs = values(s[1]); return [(), (vs[0],), tuple(vs)]
    if t=='deque':
        vs = values(s[1]); return [collections.deque(), collections.deque(vs)]
    if t=='set':
        vs = values(s[1]); return [set(), set(vs)]
    if t=='frozenset':
        vs = values(s[1]); return [frozenset(), frozenset(vs)]
    if t=='tuple2':
        return [(a, b) for a in values(s[1]) for b in values(s[2])[:2]]
    if t in ('dict','mapping'):
        ks = values(s[1]); vs = values(s[2])
        return [{}, {ks[0]: vs[0]}, {k: vs[i % len(vs)] for i,k in enumerate(reversed(ks))}]
    if t=='ordered':
        ks = values(s[1]); vs = values(s[2])
        return [collections.OrderedDict(), collections.OrderedDict((k, vs[i % len(vs)]) for i,k in enumerate(reversed(ks)))]
    if t=='chain':
        ks = values(s[1]); vs = values(s[2])
        return [collections.ChainMap(), collections.ChainMap({ks[0]: vs[0]}, {ks[-1]: vs[-1]})]
def ref_enc(s, v):
    t = s[0]
    if t=='leaf': return enc_leaf(s[1], v)
    if t=='opt': return None if v is None else ref_enc(s[1], v)
    if t in ('list','sequence','tuplevar','deque','set','frozenset'): return [ref_enc(s[1], x) for x in v]
    if t=='tuple2': return [ref_enc(s[1], v[0]), ref_enc(s[2], v[1])]
    if t in ('dict','mapping','ordered'): return {ref_enc(s[1], k): ref_enc(s[2], x) for k, x in v.items()}
    if t=='chain': return [{ref_enc(s[1], k): ref_enc(s[2], x) for k, x in m.items()} for m in v.maps]
def same(a, b):
    if type(a) is not type(b): return False
    if isinstance(a, collections.ChainMap): return same(a.maps, b.maps)
    if isinstance(a, dict): return list(a.keys())==list(b.keys()) and all(same(k1,k2) for k1,k2 in zip(a.keys(), b.keys())) and all(same(a[k], b[k]) for k in a)
    if isinstance(a, (list, tuple, collections.deque)): return len(a)==len(b) and all(same(x,y) for x,y in zip(a,b))
    if isinstance(a, (set, frozenset)): return a==b
    if isinstance(a, float): return repr(a)==repr(b)
    return a==b
n=bad=0; shown=0; kinds=collections.Counter()
for s in schemas():
    try:
        T = mat(s); E = BasicEncoder(T); D = BasicDecoder(T)
    except Exception as e:
        print("BUILD FAIL", s, type(e).__name__, e); continue
    for v in values(s):
        n+=1
        try:
            got = E.encode(v)
            exp = ref_enc(s, v)
            if not same(got, exp):
                bad+=1; kinds['enc',s[0], s[-1][1] if s[-1][0]=='leaf' else '']+=1
                if shown<15: shown+=1; print("ENC DIFF", s, repr(v)[:60], "\n   exp", repr(exp)[:100], "\n   got", repr(got)[:100])
                continue
            back = D.decode(got)
            if not same(back, v):
                bad+=1; kinds['rt',s[0], s[-1][1] if s[-1][0]=='leaf' else '']+=1
                if shown<15: shown+=1; print("RT DIFF", s, repr(v)[:80], "\n   back", repr(back)[:100])
        except Exception as e:
            bad+=1; kinds['exc',s[0], s[-1][1] if s[-1][0]=='leaf' else '', type(e).__name__]+=1
            if shown<15: shown+=1; print("EXC", s, repr(v)[:60], type(e).__name__, str(e)[:100])
print("cases", n, "bad", bad)
for k,v in kinds.most_common(40): print(k, v)
