import sys, json, collections, warnings
sys.path.insert(0, '/verif/.deps')
exec(open(__import__('os').path.join(__import__('os').path.dirname(__import__('os').path.abspath(__file__)), 'p13.py')).read().split("n=bad=0; shown=0; kinds")[0])
from dataclasses import make_dataclass, field
from mashumaro.jsonschema import build_json_schema, OPEN_API_3_1, DRAFT_2020_12
from jsonschema import Draft202012Validator
warnings.simplefilter('ignore')
n=bad=0; kinds=collections.Counter(); shown=collections.Counter()
for s in schemas():
    T = mat(s)
    P = make_dataclass('P', [('x', T), ('y', Optional[T], field(default=None))])
    for target, wrap in ((T, lambda e: e), (P, None)):
        for dialect in (DRAFT_2020_12, OPEN_API_3_1):
            for all_refs in (False, True):
                try:
                    sch = build_json_schema(target, dialect=dialect, all_refs=all_refs).to_dict()
                except NotImplementedError as e:
                    kinds[('unsupported', s[0], s[-1][1] if s[-1][0]=='leaf' else '')] += 1; continue
                except Exception as e:
                    bad+=1; kinds[('BUILD', type(e).__name__, s[0], s[-1][1] if s[-1][0]=='leaf' else '')] += 1; continue
                doc = dict(sch)
                if '$defs' in doc and dialect is OPEN_API_3_1:
                    doc['components'] = {'schemas': doc['$defs']}
                try:
                    Draft202012Validator.check_schema(doc)
                except Exception as e:
                    bad+=1; kinds[('METASCHEMA', s[0])] += 1; continue
                val = Draft202012Validator(doc)
                for v in values(s):
                    n+=1
                    inst = BasicEncoder(target).encode(v if target is T else P(v))
                    try:
                        inst = json.loads(json.dumps(inst))
                    except Exception as e:
                        kinds[('notjson', s[0], s[-1][1] if s[-1][0]=='leaf' else '')] += 1; continue
                    errs = list(val.iter_errors(inst))
                    if errs:
                        bad+=1; key=('INVALID', s[0], s[1][1] if s[1][0]=='leaf' else '', s[-1][1] if s[-1][0]=='leaf' else '')
                        kinds[key]+=1
                        if shown[key]<1 and sum(shown.values())<12:
                            shown[key]+=1; print(key, repr(inst)[:70], '|', errs[0].message[:90], '|', json.dumps(sch)[:160])
print("cases", n, "bad", bad)
for k,v in sorted(kinds.items(), key=lambda kv: str(kv[0])): print(k, v)
